//! Generators for the parse / tokens / build / transport / resolve components.

use crate::{
    exec::{hex, BuildSpec, Out, FILL},
    gen::*,
    util::*,
};
use snow::params::HandshakeModifier;

// ------------------------------------------------------------------ independent grammar recogniser (C13 oracle)

/// Independent recogniser for `Noise_<pattern><modifiers>_<dh>_<cipher>_<hash>`.
/// Returns the expected (pattern, modifiers, dh, cipher, hash) or None.
pub fn grammar(name: &[u8]) -> Option<(String, Vec<String>, String, String, String)> {
    let s = std::str::from_utf8(name).ok()?;
    let parts: Vec<&str> = s.split('_').collect();
    if parts.len() != 5 || parts[0] != "Noise" {
        return None;
    }
    let hs = parts[1];
    // longest pattern name that is a prefix
    let mut best: Option<&str> = None;
    for p in pattern_names() {
        if hs.starts_with(p) && best.map_or(true, |b| p.len() > b.len()) {
            best = Some(p);
        }
    }
    let pat = best?;
    let rest = &hs[pat.len()..];
    let mut mods: Vec<String> = Vec::new();
    if !rest.is_empty() {
        for item in rest.split('+') {
            let canon = if item == "fallback" {
                "fallback".to_string()
            } else if let Some(d) = item.strip_prefix("psk") {
                if d.is_empty() || !d.bytes().all(|b| b.is_ascii_digit()) {
                    return None;
                }
                let v = d.trim_start_matches('0');
                let v: u32 = if v.is_empty() { 0 } else if v.len() > 3 { return None } else { v.parse().ok()? };
                if v > 255 {
                    return None;
                }
                format!("psk{v}")
            } else {
                return None;
            };
            if mods.contains(&canon) {
                return None;
            }
            mods.push(canon);
        }
    }
    let dh = match parts[2] {
        "25519" => "Curve25519",
        "448" => "Curve448",
        "P256" if FULL => "P256",
        _ => return None,
    };
    let ci = match parts[3] {
        "XChaChaPoly" if !FULL => return None,
        "ChaChaPoly" | "XChaChaPoly" | "AESGCM" => parts[3],
        _ => return None,
    };
    let ha = match parts[4] {
        "SHA256" | "SHA512" => parts[4],
        "BLAKE2s" => "Blake2s",
        "BLAKE2b" => "Blake2b",
        _ => return None,
    };
    Some((pat.to_string(), mods, dh.to_string(), ci.to_string(), ha.to_string()))
}

fn check_parse(sc: &mut Sc, name: &[u8]) {
    let o = sc.ex.parse(name);
    sc.check_panic(&o, "parse");
    let line = sc.ex.res.last().cloned().unwrap_or_default();
    if line == "notutf8" {
        return;
    }
    match (grammar(name), &o) {
        (Some((pat, mods, dh, ci, ha)), Out::Ok(_)) => {
            sc.count("parse.valid");
            let exp = format!(
                "ok pattern={} mods={} dh={} cipher={} hash={} name={} psk={} fb={}",
                pat,
                if mods.is_empty() { "-".to_string() } else { mods.join(",") },
                dh,
                ci,
                ha,
                hex(name),
                u8::from(mods.iter().any(|m| m.starts_with("psk"))),
                u8::from(mods.iter().any(|m| m == "fallback"))
            );
            if line != exp {
                sc.viol("C13", format!("parse of {:?}: got `{line}`, grammar says `{exp}`", String::from_utf8_lossy(name)));
            }
        },
        (Some(_), _) => sc.viol("C13", format!("valid name {:?} rejected: {line}", String::from_utf8_lossy(name))),
        (None, Out::Ok(_)) => sc.viol("C13", format!("invalid name {:?} accepted: {line}", String::from_utf8_lossy(name))),
        (None, Out::Err(e)) => {
            sc.count("parse.invalid");
            if !e.starts_with("Pattern(") {
                sc.viol("C13", format!("invalid name {:?} rejected with {e}, not a pattern error", String::from_utf8_lossy(name)));
            }
        },
        _ => {},
    }
}

pub fn gen_parse(run: &mut Run, seed: u64, thorough: bool) {
    let pats = pattern_names();
    // 1. the valid product: every pattern x modifier set x primitives (complete)
    let mod_sets: Vec<String> = {
        let mut v = vec![String::new()];
        for n in 0..=5u8 {
            v.push(format!("psk{n}"));
        }
        v.push("fallback".into());
        v.push("psk0+psk1".into());
        v.push("psk1+psk0".into());
        v.push("psk0+psk1+psk2".into());
        v.push("fallback+psk0".into());
        v.push("psk01".into());
        v.push("psk255".into());
        v.push("psk000".into());
        v
    };
    for p in &pats {
        let mut sc = Sc::new();
        sc.ex.comment(&format!("parse: valid product for pattern {p}"));
        for m in &mod_sets {
            for dh in DHS {
                for ci in CIPHERS {
                    for ha in HASHES {
                        check_parse(&mut sc, format!("Noise_{p}{m}_{dh}_{ci}_{ha}").as_bytes());
                    }
                }
            }
        }
        run.add("parse", format!("valid product {p}"), sc);
    }
    // 1b. modifier lists: every sequence of length <= 3 (and sampled length 4) over a small item alphabet,
    //     so duplicates at any distance, leading-zero aliases and order are all covered
    {
        let items = ["psk0", "psk1", "psk01", "psk2", "fallback", "psk255", "psk00"];
        for p in ["XX", "N", "X1K1"] {
            let mut sc = Sc::new();
            sc.ex.comment(&format!("parse: all modifier sequences up to length 3 for {p}"));
            let mut seqs: Vec<Vec<&str>> = vec![];
            for a in items {
                seqs.push(vec![a]);
                for b in items {
                    seqs.push(vec![a, b]);
                    for c in items {
                        seqs.push(vec![a, b, c]);
                    }
                }
            }
            let mut r4 = Rng64(seed ^ 0x6d6f6473);
            for _ in 0..(if thorough { 600 } else { 80 }) {
                let n = 4 + r4.below(3);
                seqs.push((0..n).map(|_| *r4.pick(&items)).collect());
            }
            for sq in seqs {
                check_parse(&mut sc, format!("Noise_{p}{}_25519_AESGCM_SHA512", sq.join("+")).as_bytes());
            }
            // long lists (7 .. 14 fields): all distinct and valid; with a bad, duplicate or empty field at the end or in
            // the middle (a parser that looks only at the first few fields accepts those)
            let distinct: Vec<String> = (0..14).map(|i| if i == 5 { "fallback".to_string() } else { format!("psk{i}") }).collect();
            for n in 7..=14usize {
                let base: Vec<String> = distinct[..n].to_vec();
                let mut variants: Vec<Vec<String>> = vec![base.clone()];
                for bad in ["bogus", "psk256", "Fallback", "psk0", "", "pskx", "é"] {
                    let mut v = base.clone();
                    v.push(bad.to_string());
                    variants.push(v);
                    let mut v = base.clone();
                    v.insert(n - 1, bad.to_string());
                    variants.push(v);
                }
                for v in variants {
                    check_parse(&mut sc, format!("Noise_{p}{}_25519_AESGCM_SHA512", v.join("+")).as_bytes());
                }
            }
            run.add("parse", format!("modifier sequences {p}"), sc);
        }
    }
    // 2. single-edit mutations of valid names
    let mut r = Rng64(seed ^ 0x7061727365);
    let alphabet: Vec<Vec<u8>> = ["_", "+", "0", "1", "9", "p", "s", "k", "N", "X", "K", "I", "x", " ", "-", "é", "ß", "\u{0}", "2", "5", "6"]
        .iter()
        .map(|s| s.as_bytes().to_vec())
        .collect();
    let n_bases = if thorough { 200 } else { 30 };
    for b in 0..n_bases {
        let mut sc = Sc::new();
        let base = format!(
            "Noise_{}{}_{}_{}_{}",
            r.pick(&pats),
            r.pick(&mod_sets),
            r.pick(&DHS),
            r.pick(&CIPHERS),
            r.pick(&HASHES)
        );
        sc.ex.comment(&format!("parse: single edits of {base}"));
        let bb = base.as_bytes();
        for pos in 0..=bb.len() {
            // delete
            if pos < bb.len() {
                let mut v = bb.to_vec();
                v.remove(pos);
                check_parse(&mut sc, &v);
                // duplicate
                let mut v = bb.to_vec();
                v.insert(pos, bb[pos]);
                check_parse(&mut sc, &v);
                // case flip
                let mut v = bb.to_vec();
                v[pos] ^= 0x20;
                check_parse(&mut sc, &v);
                // a run of 2, 3, 4, 8 bytes repeated in place ("pskpsk0", "XXXX", "fallbackfallback", "_25519_25519")
                for len in [2usize, 3, 4, 8] {
                    if pos + len <= bb.len() {
                        let mut v = bb[..pos + len].to_vec();
                        v.extend_from_slice(&bb[pos..]);
                        check_parse(&mut sc, &v);
                    }
                }
            }
            // always: a NUL, a space, a '+' and a '_' inserted here (a lookup keyed on packed bytes loses leading NULs)
            for a in [[0u8], [0x20u8], [0x2bu8], [0x5fu8]] {
                let mut v = bb[..pos].to_vec();
                v.extend_from_slice(&a);
                v.extend_from_slice(&bb[pos..]);
                check_parse(&mut sc, &v);
            }
            let picks = if thorough { alphabet.len() } else { 4 };
            for _ in 0..picks {
                let a = r.pick(&alphabet).clone();
                // insert
                let mut v = bb[..pos].to_vec();
                v.extend_from_slice(&a);
                v.extend_from_slice(&bb[pos..]);
                check_parse(&mut sc, &v);
                // replace
                if pos < bb.len() {
                    let mut v = bb[..pos].to_vec();
                    v.extend_from_slice(&a);
                    v.extend_from_slice(&bb[pos + 1..]);
                    check_parse(&mut sc, &v);
                }
            }
        }
        run.add("parse", format!("edits {b}"), sc);
    }
    // 3. hand-picked and random strings
    let mut sc = Sc::new();
    sc.ex.comment("parse: special and random strings");
    for s in [
        "", "_", "____", "_____", "Noise", "Noise_", "Noise_XX", "Noise_XX_25519", "Noise_XX_25519_AESGCM",
        "Noise_XX_25519_AESGCM_SHA256_", "Noise_XX_25519_AESGCM_SHA256_extra", "noise_XX_25519_AESGCM_SHA256",
        "Noise__25519_AESGCM_SHA256", "Noise_XXpsk_25519_AESGCM_SHA256", "Noise_XXpsk256_25519_AESGCM_SHA256",
        "Noise_XXpsk+1_25519_AESGCM_SHA256", "Noise_XXpsk-1_25519_AESGCM_SHA256", "Noise_XX+psk0_25519_AESGCM_SHA256",
        "Noise_XXpsk0+_25519_AESGCM_SHA256", "Noise_XXpsk0++psk1_25519_AESGCM_SHA256", "Noise_XXpsk1+psk01_25519_AESGCM_SHA256",
        "Noise_XXpsk0psk1_25519_AESGCM_SHA256", "Noise_XXfallback+fallback_25519_AESGCM_SHA256", "Noise_XXhfs_25519_AESGCM_SHA256",
        "Noise_X1X1psk4_25519_AESGCM_SHA256", "Noise_I1K1psk0_448_ChaChaPoly_BLAKE2b", "Noise_XXX_25519_AESGCM_SHA256",
        "Noise_X1_25519_AESGCM_SHA256", "Noise_1X_25519_AESGCM_SHA256", "Noise_NNé_25519_AESGCM_SHA256", "Noise_Né_25519_AESGCM_SHA256",
        "Noise_é_25519_AESGCM_SHA256", "Noise_NNNé_25519_AESGCM_SHA256", "Noise_XX_25519_AESGCM_sha256", "Noise_XX_P256_XChaChaPoly_BLAKE2s",
        "Noise_XXpsk0000000000000000000000000001_25519_AESGCM_SHA256", "Noise_XXpsk99999999999999999999_25519_AESGCM_SHA256",
        "Noise_Kpsk٣_25519_AESGCM_SHA256", "Noise_XX_25519_AESGCM_SHA256\n", " Noise_XX_25519_AESGCM_SHA256",
        "Noise_XX_25519_AESGCM_SHA256 ", "\tNoise_XX_25519_AESGCM_SHA256", "Noise_XX_25519_AESGCM_SHA256\r\n", "\u{a0}Noise_XX_25519_AESGCM_SHA256",
        "Noise_XXpskpsk0_25519_AESGCM_SHA256", "Noise_XXfallback+pskpsk2_25519_AESGCM_SHA256", "Noise_XXpskpskpsk1_25519_AESGCM_SHA256",
        "Noise_XXpsk0x_25519_AESGCM_SHA256", "Noise_XXpsk 0_25519_AESGCM_SHA256", "Noise_XXpsk+0_25519_AESGCM_SHA256", "Noise_XXPSK0_25519_AESGCM_SHA256",
    ] {
        check_parse(&mut sc, s.as_bytes());
    }
    let chars = b"NoiseXKI1_+psk0123456789fallbackAESGCMSHAChaPolyBLKE2sb";
    for _ in 0..(if thorough { 3000 } else { 400 }) {
        let n = r.below(40);
        let v: Vec<u8> = (0..n).map(|_| chars[r.below(chars.len())]).collect();
        check_parse(&mut sc, &v);
    }
    for _ in 0..(if thorough { 500 } else { 60 }) {
        let n = r.below(30);
        let s: String = (0..n).map(|_| char::from_u32(r.below(0x2500) as u32).unwrap_or('x')).collect();
        check_parse(&mut sc, s.as_bytes());
    }
    run.add("parse", "special and random".into(), sc);
    // the individual FromStr impls called directly (BaseChoice, DHChoice, CipherChoice, HashChoice, HandshakePattern,
    // HandshakeModifier, HandshakeModifierList, HandshakeChoice): every kind on every candidate string
    let mut sc = Sc::new();
    sc.ex.comment("parse_part: the FromStr impls of the parameter types, directly");
    let mut cands: Vec<String> = [
        "Noise", "noise", "Noise ", "", "NoiseXX", "25519", "448", "P256", "p256", "X25519", "Curve25519", "ChaChaPoly", "XChaChaPoly", "AESGCM", "AES256GCM",
        "chachapoly", "SHA256", "SHA512", "BLAKE2s", "BLAKE2b", "Blake2s", "SHA-256", "sha256", "SHA+256", "SHA0256", "XXfallback", "XXpsk0", "XXpsk3",
        "XXpsk4", "NNpsk0+psk2", "NNpsk2+psk0", "X1X1psk1", "XK1psk3", "IKpsk1+fallback", "Npsk0", "Npsk1", "psk0", "psk1", "psk9", "psk255", "psk256",
        "psk01", "psk001", "psk0255", "psk", "pskx", "psk-1", "psk+1", "psk 1", "pskpsk0", "PSK0", "fallback", "Fallback", "fallbackx", "hfs", "psk0+psk1", "psk0+psk0",
        "psk1+psk01", "psk1+fallback", "fallback+psk1", "fallback+fallback", "+", "psk0+", "+psk0", "psk0++psk1", "é", "XXé", "pskü", "XX+psk0", "XX_psk0", "I1K1", "I1K1psk2+psk0",
    ]
    .iter()
    .map(|x| (*x).to_string())
    .collect();
    for p in &pats {
        cands.push((*p).to_string());
        if p.len() > 1 {
            cands.push(p[..p.len() - 1].to_string());
        }
        cands.push(format!("{p}1"));
        cands.push(p.to_lowercase());
    }
    for kind in ["base", "dh", "cipher", "hash", "pattern", "modifier", "modlist", "handshake"] {
        for c in &cands {
            let o = sc.ex.parse_part(kind, c.as_bytes());
            if o == "panic" {
                sc.viol("C10", format!("parsing {c:?} as {kind} panicked"));
            }
            sc.count("parse.part");
        }
    }
    run.add("parse", "FromStr impls called directly".into(), sc);
}

// ------------------------------------------------------------------ tokens (modifier application)

fn expected_tokens(idx: usize, mods: &[HandshakeModifier]) -> Option<String> {
    // specification: pskN with N=0 goes to the front of message 1, N>=1 to the end of message N
    let base = parse_tokens_line(&snow::verif_hooks::tokens_line(idx, &[]))?;
    let mut msgs = base.msgs.clone();
    for m in mods {
        match m {
            HandshakeModifier::Psk(n) => {
                let n = *n as usize;
                if n == 0 {
                    msgs.get_mut(0)?.insert(0, Tok::Psk(0));
                } else {
                    msgs.get_mut(n - 1)?.push(Tok::Psk(n as u8));
                }
            },
            HandshakeModifier::Fallback => return None,
        }
    }
    let ts = |v: &Vec<Tok>| {
        v.iter()
            .map(|t| match t {
                Tok::E => "e".to_string(),
                Tok::S => "s".into(),
                Tok::Ee => "ee".into(),
                Tok::Es => "es".into(),
                Tok::Se => "se".into(),
                Tok::Ss => "ss".into(),
                Tok::Psk(n) => format!("psk{n}"),
            })
            .collect::<Vec<_>>()
            .join(",")
    };
    Some(format!("ok pre_i=[{}] pre_r=[{}] msgs=[{}]", ts(&base.pre_i), ts(&base.pre_r), msgs.iter().map(ts).collect::<Vec<_>>().join("|")))
}

pub fn gen_tokens(run: &mut Run, _seed: u64, thorough: bool) {
    let pats = pattern_names();
    for (idx, p) in pats.iter().enumerate() {
        let mut sc = Sc::new();
        sc.ex.comment(&format!("tokens: pattern {p}, every single modifier and short lists"));
        let check = |sc: &mut Sc, mods: &[HandshakeModifier]| {
            let line = sc.ex.tokens(idx, mods);
            if line == "panic" {
                sc.viol("C10", format!("panic building tokens for {p} {mods:?}"));
            }
            match expected_tokens(idx, mods) {
                Some(exp) => {
                    if line != exp {
                        sc.viol("C01", format!("{p} {mods:?}: tokens `{line}`, specification `{exp}`"));
                    }
                },
                None => {
                    if line.starts_with("ok") {
                        sc.viol("C12", format!("{p} {mods:?}: unsupported/misfitting modifier accepted"));
                    }
                },
            }
        };
        check(&mut sc, &[]);
        for n in 0..=255u8 {
            check(&mut sc, &[HandshakeModifier::Psk(n)]);
        }
        check(&mut sc, &[HandshakeModifier::Fallback]);
        let items: Vec<HandshakeModifier> =
            (0..=5u8).map(HandshakeModifier::Psk).chain(std::iter::once(HandshakeModifier::Fallback)).collect();
        for a in &items {
            for b in &items {
                if a == b {
                    continue;
                }
                check(&mut sc, &[*a, *b]);
                if thorough {
                    for c in &items {
                        if c == a || c == b {
                            continue;
                        }
                        check(&mut sc, &[*a, *b, *c]);
                    }
                }
            }
        }
        run.add("tokens", format!("modifiers {p}"), sc);
    }
}

// ------------------------------------------------------------------ build

pub fn gen_build(run: &mut Run, seed: u64, thorough: bool) {
    let pats = pattern_names();
    let mut r = Rng64(seed ^ 0x6275696c64);
    for p in &pats {
        let mut sc = Sc::new();
        sc.ex.comment(&format!("build: pattern {p}"));
        let base = inst_of(p, &[]).unwrap();
        let nm = base.msgs.len() as u8;
        let mut sid = 1u32;
        for initiator in [true, false] {
            for dh in if thorough { vec!["25519", "448", "P256"] } else { vec![*r.pick(&DHS)] } {
                let resolver = "toy";
                let Some(pub_len) = pub_len_of(resolver, dh) else { continue };   // P256 without the `full` feature
                for have_s in [false, true] {
                    for have_rs in [false, true] {
                        // modifier variants: none, psk0..psk(nm+1), fallback
                        let mut modsets: Vec<Vec<u8>> = vec![vec![]];
                        for n in 0..=nm + 1 {
                            modsets.push(vec![n]);
                        }
                        modsets.push(vec![0, nm]);
                        for mods in &modsets {
                            let name = format!("Noise_{p}{}_{dh}_ChaChaPoly_SHA256", mods_suffix(mods));
                            let psks: Vec<(u8, Vec<u8>)> = if r.chance(1, 2) { mods.iter().filter(|n| **n < 10).map(|n| (*n, r.bytes(32))).collect() } else { vec![] };
                            let spec = BuildSpec { alias: None, mods: None,
                                name: name.clone(),
                                initiator,
                                resolver: resolver.into(),
                                s: if have_s { Some(r.bytes(32)) } else { None },
                                e: if r.chance(1, 3) { Some(r.bytes(32)) } else { None },
                                rs: if have_rs { Some(r.bytes(pub_len)) } else { None },
                                psks,
                                prologue: if r.chance(1, 2) { let n = r.below(40); Some(r.bytes(n)) } else { None },
                                rng: r.bytes(32),
                            };
                            let o = sc.ex.build(sid, &spec);
                            sc.check_panic(&o, "build");
                            // oracle from the token table of the running code
                            let fits = mods.iter().all(|n| *n <= nm);
                            let need_s = role_uses_s(&base, initiator);
                            let need_rs = role_preknows_rs(&base, initiator);
                            let should = fits && (have_s || !need_s) && (have_rs || !need_rs);
                            sc.count(if should { "build.should_ok" } else { "build.should_err" });
                            match (&o, should) {
                                (Out::Ok(_), true) | (Out::Err(_), false) => {},
                                (Out::Ok(_), false) => sc.viol("C12", format!("{name} {} built although s:{have_s}/{need_s} rs:{have_rs}/{need_rs} fits:{fits}", if initiator { "initiator" } else { "responder" })),
                                (Out::Err(e), true) => sc.viol("C12", format!("{name} {} rejected ({e}) although all prerequisites are supplied", if initiator { "initiator" } else { "responder" })),
                                _ => {},
                            }
                            if let Out::Err(e) = &o {
                                if !(e.starts_with("Prereq(") || e.starts_with("Init(") || e.starts_with("Pattern(")) {
                                    sc.viol("C12", format!("{name}: build error {e} is not a build-time error kind"));
                                }
                            }
                            if o.is_ok() {
                                sc.ex.query(sid);
                                sc.ex.drop_session(sid);
                            }
                            sid += 1;
                        }
                    }
                }
            }
        }
        // psk positions that do not fit the position's type (256 = 0 mod 256, 257 = 1, ...): never a valid modifier,
        // whatever else is supplied
        for suffix in ["psk256", "psk257", "psk258", "psk300", "psk512", "psk0999", "psk65535", "psk65536", "psk65537", "psk4294967296", "psk4294967297", "psk1+psk256", "psk256+psk1"] {
            let name = format!("Noise_{p}{suffix}_25519_ChaChaPoly_SHA256");
            let spec = BuildSpec { alias: None, mods: None,
                name: name.clone(),
                initiator: r.chance(1, 2),
                resolver: "toy".into(),
                s: Some(r.bytes(32)),
                e: None,
                rs: Some(r.bytes(32)),
                psks: (0..3u8).map(|n| (n, r.bytes(32))).collect(),
                prologue: None,
                rng: r.bytes(32),
            };
            let o = sc.ex.build(sid, &spec);
            sc.check_panic(&o, "build with a psk position past 255");
            sc.count("build.psk_pos_wide");
            if o.is_ok() {
                sc.viol("C12", format!("{name} built: the psk position is not a position"));
                sc.ex.drop_session(sid);
            }
            sid += 1;
        }
        // key lengths (C10 / C12): every length class for s, e, rs; on a pattern that needs all keys (KK)
        // and on this pattern, where the key may be supplied although the role does not need it
        for (dh, kpat) in [("25519", "KK"), ("P256", "KK"), ("448", "KK"), ("25519", *p), ("P256", *p)] {
            let Some(pub_len) = pub_len_of("toy", dh) else { continue };   // P256 without the `full` feature
            for which in 0..3 {
                for len in [0usize, 1, 31, 32, 33, pub_len - 1, pub_len, pub_len + 1, 56, 57, 64, 65, 66, 100, 200] {
                    let name = format!("Noise_{kpat}_{dh}_AESGCM_BLAKE2b");
                    let mut spec = BuildSpec { alias: None, mods: None,
                        name: name.clone(),
                        initiator: r.chance(1, 2),
                        resolver: "toy".into(),
                        s: Some(r.bytes(32)),
                        e: None,
                        rs: Some(r.bytes(pub_len)),
                        psks: vec![],
                        prologue: None,
                        rng: vec![],
                    };
                    match which {
                        0 => spec.s = Some(r.bytes(len)),
                        1 => spec.e = Some(r.bytes(len)),
                        _ => spec.rs = Some(r.bytes(len)),
                    }
                    let o = sc.ex.build(sid, &spec);
                    sc.check_panic(&o, &format!("build with key length {len} (which={which})"));
                    sc.count("build.keylen");
                    if o.is_ok() {
                        sc.ex.drop_session(sid);
                    }
                    sid += 1;
                }
            }
        }
        // known finding (C10): P-256 private keys outside [1, n-1] panic in Dh::set (derive_pubkey().unwrap())
        if *p == "NN" {
            for (what, key) in [("all-zero", vec![0u8; 32]), ("all-0xff", vec![0xffu8; 32])] {
                let spec = BuildSpec { alias: None, mods: None,
                    name: "Noise_NN_P256_ChaChaPoly_SHA256".into(),
                    initiator: true,
                    resolver: "default".into(),
                    s: Some(key),
                    e: None,
                    rs: None,
                    psks: vec![],
                    prologue: None,
                    rng: vec![1u8; 64],
                };
                let o = sc.ex.build(sid, &spec);
                if o == Out::Panic {
                    sc.viol("C10", format!("panic in Builder::build_initiator with use-p256 and a local private key that is not a valid P-256 scalar ({what})"));
                } else if o.is_ok() {
                    sc.ex.drop_session(sid);
                }
                sid += 1;
            }
        }
        // resolver availability
        for res in ["toy-norng", "toy-nodh", "toy-nocipher", "toy-nohash", "none", "fb(none,toy)", "fb(toy-nodh,toy-nohash)", "fb(toy-nodh,toy-nodh)"] {
            let name = format!("Noise_{p}_25519_AESGCM_SHA512");
            let spec = BuildSpec { alias: None, mods: None,
                name: name.clone(),
                initiator: r.chance(1, 2),
                resolver: res.into(),
                s: Some(r.bytes(32)),
                e: None,
                rs: Some(r.bytes(32)),
                psks: vec![],
                prologue: None,
                rng: vec![],
            };
            let o = sc.ex.build(sid, &spec);
            sc.check_panic(&o, "build with partial resolver");
            let complete = matches!(res, "fb(none,toy)" | "fb(toy-nodh,toy-nohash)");
            if o.is_ok() != complete {
                sc.viol("C12", format!("{name} with resolver {res}: {o:?}"));
                sc.viol("C20", format!("{name} with resolver {res}: {o:?}"));
            }
            if o.is_ok() {
                sc.ex.drop_session(sid);
            }
            sid += 1;
        }
        run.add("build", format!("build {p}"), sc);
    }
}

// ------------------------------------------------------------------ resolve

/// Sessions whose modifier list was put together by hand (`NoiseParams.handshake.modifiers.list` is a public field):
/// lists the parser never produces. Built for both roles and run with generous buffers; compared with the model only.
pub fn gen_handmods(run: &mut Run, seed: u64) {
    let mut r = Rng64(seed ^ 0x686d6f6473);
    let lists = [
        "psk0,psk0", "psk1,psk0", "psk0,psk1,psk0", "psk2,psk2", "fallback", "psk0,fallback", "psk9", "psk255", "psk1,psk1,psk1", "-",
        "psk2,psk2,psk2,psk2,psk2,psk2", "psk0,psk1,psk0,psk1,psk0,psk1,psk0", "psk1,psk1,psk1,psk1,psk1,psk1,psk1,psk1,psk1,psk1",
        "psk0,psk0,psk0,psk0,psk0,psk0,psk0,psk0,psk0,psk0,psk0,psk0", "psk2,psk1,psk0,psk2,psk1,psk0,psk2,psk1,psk0",
    ];
    for (pi, p) in ["NN", "XX", "IK", "N", "X1X1", "KX", "IX"].iter().enumerate() {
        for (li, l) in lists.iter().enumerate() {
            let mut sc = Sc::new();
            sc.ex.comment(&format!("hand-built modifier list {l} on {p}"));
            let name = format!("Noise_{p}psk0_25519_ChaChaPoly_SHA256");
            let s_i = r.bytes(32);
            let s_r = r.bytes(32);
            let (Some(pub_i), Some(pub_r)) = (pub_of("toy", "25519", &s_i), pub_of("toy", "25519", &s_r)) else { continue };
            let psks: Vec<(u8, Vec<u8>)> = (0..4u8).map(|n| (n, vec![0x31 + n; 32])).collect();
            let mk = |initiator: bool| BuildSpec { alias: None, mods: Some((*l).to_string()),
                name: name.clone(),
                initiator,
                resolver: "toy".into(),
                s: Some(if initiator { s_i.clone() } else { s_r.clone() }),
                e: None,
                rs: Some(if initiator { pub_r.clone() } else { pub_i.clone() }),
                psks: psks.clone(),
                prologue: None,
                rng: Rng64(seed ^ (pi * 31 + li) as u64 ^ u64::from(initiator)).bytes(128),
            };
            let (a, b) = (sc.ex.build(1, &mk(true)), sc.ex.build(2, &mk(false)));
            sc.check_panic(&a, "build with a hand-built modifier list");
            sc.check_panic(&b, "build with a hand-built modifier list");
            sc.count("build.handmods");
            if a.is_ok() && b.is_ok() {
                for k in 0..5 {
                    let (w, rd) = if k % 2 == 0 { (1, 2) } else { (2, 1) };
                    let o = sc.ex.hs_write(w, b"hm", 400);
                    sc.check_panic(&o, "hs_write (hand-built modifier list)");
                    let Some(m) = o.bytes().map(<[u8]>::to_vec) else { break };
                    let o = sc.ex.hs_read(rd, &m, 400);
                    sc.check_panic(&o, "hs_read (hand-built modifier list)");
                    if !o.is_ok() {
                        break;
                    }
                }
                let _ = sc.ex.query(1);
                let _ = sc.ex.query(2);
            }
            run.add("build", format!("hand-built modifiers {l} {p}"), sc);
            // the same list with the two parties' psks differing in one bit: every psk NAMED in the list is bound,
            // however often it is named (C08): some read of the handshake must fail
            if l.contains("psk") {
                let mut sc = Sc::new();
                sc.ex.comment(&format!("hand-built modifier list {l} on {p}, psks differ"));
                let mut spec_r = mk(false);
                let bit = r.below(256);
                for (_, v) in &mut spec_r.psks {
                    v[bit / 8] ^= 1 << (bit % 8);
                }
                let (a, b) = (sc.ex.build(1, &mk(true)), sc.ex.build(2, &spec_r));
                sc.check_panic(&a, "build with a hand-built modifier list");
                sc.check_panic(&b, "build with a hand-built modifier list");
                sc.count("build.handmods_mismatch");
                if a.is_ok() && b.is_ok() {
                    let mut refused = false;
                    for k in 0..5 {
                        let (w, rd) = if k % 2 == 0 { (1, 2) } else { (2, 1) };
                        let o = sc.ex.hs_write(w, b"hm", 400);
                        sc.check_panic(&o, "hs_write (hand-built modifier list)");
                        let Some(m) = o.bytes().map(<[u8]>::to_vec) else { refused = !sc.ex.query(w).map_or(false, |q| q.fin == Some(true)); break };
                        let o = sc.ex.hs_read(rd, &m, 400);
                        sc.check_panic(&o, "hs_read (hand-built modifier list)");
                        if !o.is_ok() {
                            refused = true;
                            break;
                        }
                    }
                    if !refused {
                        sc.viol("C08", format!("Noise_{p} with the hand-built modifier list [{l}]: the parties' psks differ in one bit and the handshake completed"));
                    }
                }
                run.add("build", format!("hand-built modifiers {l} {p}, psks differ"), sc);
            }
        }
    }
}

pub fn gen_resolve(run: &mut Run) {
    let mut sc = Sc::new();
    sc.ex.comment("resolve: every kind x choice x resolver expression");
    let exprs = [
        "default", "ring", "toy", "none", "toy-nodh", "toy-nocipher", "toy-nohash", "toy-norng",
        "fb(ring,default)", "fb(default,ring)", "fb(none,default)", "fb(default,none)", "fb(none,none)", "fb(ring,none)",
        "fb(none,ring)", "fb(toy,default)", "fb(default,toy)", "fb(ring,toy)", "fb(toy-nodh,default)", "fb(fb(none,ring),default)",
        "fb(none,fb(ring,default))", "mark1", "mark2", "fb(mark1,mark2)", "fb(mark2,mark1)", "fb(toy-norng,mark2)",
        "fb(mark1,default)", "fb(default,mark1)", "fb(fb(none,mark2),mark1)", "fb(ring,mark1)",
    ];
    let kinds: [(&str, Vec<&str>); 4] = [
        ("rng", vec!["-"]),
        ("dh", vec!["Curve25519", "Curve448", "P256"]),
        ("hash", vec!["SHA256", "SHA512", "Blake2s", "Blake2b"]),
        ("cipher", vec!["ChaChaPoly", "XChaChaPoly", "AESGCM"]),
    ];
    // second binary (snow with default features only): no ring backend, no P256 / XChaChaPoly choice values
    let exprs: Vec<&str> = exprs.iter().copied().filter(|e| FULL || !e.contains("ring")).collect();
    let kinds: Vec<(&str, Vec<&str>)> =
        kinds.iter().map(|(k, cs)| (*k, cs.iter().copied().filter(|c| FULL || (*c != "P256" && *c != "XChaChaPoly")).collect())).collect();
    for e in exprs.iter().copied() {
        for (kind, choices) in &kinds {
            for c in choices {
                let got = sc.ex.resolve(e, kind, c);
                sc.count("resolve");
                // oracle for fallback expressions: first member that provides it
                if let Some(inner) = e.strip_prefix("fb(").and_then(|x| x.strip_suffix(')')) {
                    let mut depth = 0;
                    let mut cut = None;
                    for (i, ch) in inner.char_indices() {
                        match ch {
                            '(' => depth += 1,
                            ')' => depth -= 1,
                            ',' if depth == 0 => {
                                cut = Some(i);
                                break;
                            },
                            _ => {},
                        }
                    }
                    if let Some(i) = cut {
                        let a = crate::exec::resolve_line(&inner[..i], kind, c);
                        let b = crate::exec::resolve_line(&inner[i + 1..], kind, c);
                        let exp = if a != "none" { a } else { b };
                        if got != exp {
                            sc.viol("C20", format!("resolve {e} {kind} {c}: got `{got}`, members give `{exp}`"));
                        }
                    }
                }
            }
        }
    }
    run.add("resolve", "resolver expressions".into(), sc);
    // sequences of requests on ONE instance: the answer to a request must not depend on earlier requests (a member
    // that lacks one choice still provides the others; the preferred member stays preferred)
    let mut r = Rng64(0x7265_736f_6c76);
    let all: Vec<(&str, &str)> = kinds.iter().flat_map(|(k, cs)| cs.iter().map(move |c| (*k, *c))).collect();
    for e in exprs.iter().filter(|e| e.starts_with("fb(")) {
        for rep in 0..3 {
            let mut sc = Sc::new();
            sc.ex.comment(&format!("resolve_on {e}: request sequence {rep} on one instance"));
            let n = 14;
            for step in 0..n {
                // start with requests some member cannot serve, then everything in random order
                let (kind, c) = if step < 3 && FULL {
                    [("dh", "Curve448"), ("cipher", "XChaChaPoly"), ("hash", "Blake2s"), ("dh", "P256"), ("cipher", "AESGCM")][r.below(5)]
                } else if step < 3 {
                    [("dh", "Curve448"), ("hash", "Blake2s"), ("cipher", "AESGCM")][r.below(3)]
                } else {
                    all[r.below(all.len())]
                };
                let got = sc.ex.resolve_on(e, kind, c);
                sc.count("resolve");
                let fresh = crate::exec::resolve_line(e, kind, c);
                if got != fresh {
                    sc.viol("C20", format!("resolve {e} {kind} {c} after {step} earlier requests on the same resolver: got `{got}`, a fresh resolver gives `{fresh}`"));
                }
            }
            run.add("resolve", format!("request sequence on one {e}"), sc);
        }
    }
}

// ------------------------------------------------------------------ transport

/// Builds a finished pair quickly (NN or a one-way pattern) and leaves sids 1 (initiator), 2 (responder).
fn quick_pair(sc: &mut Sc, name: &str, res_i: &str, res_r: &str, seed: u64, stateless: bool) -> bool {
    let mut r = Rng64(seed);
    let parts: Vec<&str> = name.split('_').collect();
    let dh = parts[2];
    let pat: String = parts[1].chars().take_while(|c| !c.is_ascii_lowercase()).collect();
    let psks: Vec<u8> = parts[1][pat.len()..].split('+').filter(|s| !s.is_empty()).map(|s| s[3..].parse().unwrap()).collect();
    let Some(inst) = inst_of(&pat, &psks) else { return false };
    let s_i = r.bytes(32);
    let s_r = r.bytes(32);
    let (Some(pub_i), Some(pub_r)) = (pub_of(res_i, dh, &s_i), pub_of(res_r, dh, &s_r)) else { return false };
    let psk: Vec<(u8, Vec<u8>)> = psks.iter().map(|n| (*n, vec![0x77 ^ *n; 32])).collect();
    let mk = |initiator: bool| BuildSpec { alias: None, mods: None,
        name: name.to_string(),
        initiator,
        resolver: if initiator { res_i.into() } else { res_r.into() },
        s: if role_uses_s(&inst, initiator) { Some(if initiator { s_i.clone() } else { s_r.clone() }) } else { None },
        e: None,
        rs: if role_preknows_rs(&inst, initiator) { Some(if initiator { pub_r.clone() } else { pub_i.clone() }) } else { None },
        psks: psk.clone(),
        prologue: None,
        rng: Rng64(seed ^ if initiator { 1 } else { 2 }).bytes(64),
    };
    if !sc.ex.build(1, &mk(true)).is_ok() || !sc.ex.build(2, &mk(false)).is_ok() {
        return false;
    }
    // `dangerously_get_raw_split` is callable at any time and must not influence the session: in a third of the
    // sessions it is called on both sides before the first message, in another third after every message (seeded round
    // 6, C04-I: a split memoised by an early call froze the transport keys)
    let peek = seed % 3;
    if peek == 1 {
        let _ = sc.ex.raw_split(1);
        let _ = sc.ex.raw_split(2);
    }
    for k in 0..inst.msgs.len() {
        let (w, rd) = if k % 2 == 0 { (1, 2) } else { (2, 1) };
        let Some(m) = sc.ex.hs_write(w, &[], 300).bytes().map(<[u8]>::to_vec) else { return false };
        if !sc.ex.hs_read(rd, &m, 300).is_ok() {
            return false;
        }
        if peek == 2 {
            let _ = sc.ex.raw_split(1);
            let _ = sc.ex.raw_split(2);
        }
    }
    // the split keys of the finished handshake (for manual rekeys "back to the split key")
    sc.raw_keys = sc.ex.raw_split(1).and_then(|(a, b)| Some((<[u8; 32]>::try_from(a.as_slice()).ok()?, <[u8; 32]>::try_from(b.as_slice()).ok()?)));
    sc.ex.convert(1, stateless).is_ok() && sc.ex.convert(2, stateless).is_ok()
}

/// Keys for manual rekeys: mostly fresh random keys, but also keys installed earlier in the scenario (an application
/// going back to a key), the split keys of the handshake, and the all-zero / all-0xff keys. Returns the key and its
/// symbolic identity for direction `d` ("k" when it is that direction's own split key).
pub struct KeyPool {
    used: Vec<[u8; 32]>,
    raw: Option<([u8; 32], [u8; 32])>,
    /// the key last installed by hand (or by the split) per direction: "manual K, specification rekeys, manual K again"
    last: [Option<[u8; 32]>; 2],
}
impl KeyPool {
    pub fn new(raw: Option<([u8; 32], [u8; 32])>) -> Self {
        KeyPool { used: vec![], raw, last: [raw.map(|x| x.0), raw.map(|x| x.1)] }
    }
    pub fn pick(&mut self, r: &mut Rng64, d: usize) -> ([u8; 32], String) {
        let (k, id, _) = self.pick_f(r, d);
        (k, id)
    }
    /// Also tells whether the key is fresh (never installed or derived in this scenario before): installing a key that
    /// was in use before is the APPLICATION reusing a key, and a (key, nonce) repetition that follows from it is not
    /// snow's (the C06 oracle on transport traffic skips such directions).
    pub fn pick_f(&mut self, r: &mut Rng64, d: usize) -> ([u8; 32], String, bool) {
        let before = self.used.clone();
        let (k, id) = self.pick0(r, d);
        let fresh = !before.contains(&k) && self.raw.map_or(true, |(a, b)| a != k && b != k);
        self.last[d] = Some(k);
        (k, id, fresh)
    }
    fn pick0(&mut self, r: &mut Rng64, d: usize) -> ([u8; 32], String) {
        let roll = r.below(130);
        let k: [u8; 32] = if roll >= 100 && self.last[d].is_some() {
            self.last[d].unwrap()
        } else if roll < 18 && !self.used.is_empty() {
            self.used[r.below(self.used.len())]
        } else if roll < 26 {
            [0u8; 32]
        } else if roll < 30 {
            [0xffu8; 32]
        } else if roll < 42 && self.raw.is_some() {
            let (a, b) = self.raw.unwrap();
            if (roll % 3 == 0) == (d == 0) { b } else { a }
        } else if roll < 50 {
            // constant-byte keys (all of them agree on every XOR / sum-of-lanes digest of the key)
            [[1u8, 2, 3, 0x55, 0xaa, 0x80, 0x7f, 0xfe][r.below(8)]; 32]
        } else if roll < 62 && self.last[d].is_some() {
            // a key RELATED to the one in place: two bytes exchanged (8, 16 or 1 apart), one bit flipped, reversed,
            // rotated by a lane: a cipher that recognises "the same key" by anything short of the key must not
            let mut k = self.last[d].unwrap();
            match r.below(6) {
                0 => { let i = r.below(24); k.swap(i, i + 8); },
                1 => { let i = r.below(16); k.swap(i, i + 16); },
                2 => { let i = r.below(31); k.swap(i, i + 1); },
                3 => { let i = r.below(32); k[i] ^= 1 << r.below(8); },
                4 => k.reverse(),
                _ => k.rotate_left(8),
            }
            k
        } else {
            r.bytes(32).try_into().unwrap()
        };
        if !self.used.contains(&k) {
            self.used.push(k);
        }
        let own = self.raw.map(|(a, b)| if d == 0 { a } else { b });
        let id = if own == Some(k) { "k".to_string() } else { format!("M({})", hex(&k)) };
        (k, id)
    }
}

#[derive(Clone, Debug)]
pub struct TransportCfg {
    pub name: String,
    pub res_i: String,
    pub res_r: String,
    pub seed: u64,
    pub steps: usize,
}
impl TransportCfg {
    pub fn adapted(&self) -> TransportCfg {
        let mut c = self.clone();
        c.name = adapt_name(&c.name);
        c.res_i = adapt_res(&c.res_i);
        c.res_r = adapt_res(&c.res_r);
        c
    }
}

/// Stateful transport: random schedule with reordering, loss, duplication, garbage, reflection,
/// undersized buffers, rekeys, explicit nonces.  Oracles: C04, C05, C09, C15, C14, C19, C10.
#[allow(clippy::too_many_lines)]
pub fn run_transport(cfg: &TransportCfg, sc: &mut Sc) {
    let cfg = &cfg.adapted();
    sc.ex.comment(&format!("transport {} res_i={} res_r={}", cfg.name, cfg.res_i, cfg.res_r));
    if !quick_pair(sc, &cfg.name, &cfg.res_i, &cfg.res_r, cfg.seed, false) {
        sc.ex.comment("pair not available");
        return;
    }
    let oneway = {
        let pat: String = cfg.name.split('_').nth(1).unwrap().chars().take_while(|c| !c.is_ascii_lowercase()).collect();
        inst_of(&pat, &[]).map_or(false, |i| i.msgs.len() == 1)
    };
    let mut r = Rng64(cfg.seed ^ 0x7472616e73);
    let mut pool = KeyPool::new(sc.raw_keys);
    let mut tainted_any = false;
    // per direction: sent messages (nonce, bytes, payload, sender's key identity at that time) and the
    // abstract state: counters and symbolic key identities ("k", "R(k)", "M(<hex>)", ...)
    struct Dir {
        sent: Vec<(u64, Vec<u8>, Vec<u8>, String)>,
        send_n: u64,
        recv_n: u64,
        send_key: String,
        recv_key: String,
    }
    let mut dirs = [
        Dir { sent: vec![], send_n: 0, recv_n: 0, send_key: "k".into(), recv_key: "k".into() },
        Dir { sent: vec![], send_n: 0, recv_n: 0, send_key: "k".into(), recv_key: "k".into() },
    ];
    // the remote static key reported right after conversion: whatever happens in transport mode (refused calls at the
    // end of the counter range, rekeys, manual rekeys of both directions) it must keep being reported (C17)
    let rs0: [Option<Vec<u8>>; 2] = [sc.ex.query(1).and_then(|q| q.rs), sc.ex.query(2).and_then(|q| q.rs)];
    let check_nonces = |sc: &mut Sc, dirs: &[Dir; 2]| {
        for (sid, initiator) in [(1u32, true), (2u32, false)] {
            if let Some(q) = sc.ex.query(sid) {
                if q.rs != rs0[(sid - 1) as usize] {
                    sc.viol("C17", format!("{}: sid {sid} in transport mode reports remote static {:?}, at conversion it was {:?}", cfg.name, q.rs.as_ref().map(|v| hex(v)), rs0[(sid - 1) as usize].as_ref().map(|v| hex(v))));
                }
                let (sd, rd) = if initiator { (0, 1) } else { (1, 0) };
                if q.sn != Some(dirs[sd].send_n) {
                    sc.viol("C09", format!("{}: sid {sid} sending nonce {:?}, expected {}", cfg.name, q.sn, dirs[sd].send_n));
                }
                if q.rn != Some(dirs[rd].recv_n) {
                    sc.viol("C09", format!("{}: sid {sid} receiving nonce {:?}, expected {}", cfg.name, q.rn, dirs[rd].recv_n));
                    sc.viol("C05", format!("{}: sid {sid} receiving nonce {:?}, expected {}", cfg.name, q.rn, dirs[rd].recv_n));
                }
            }
        }
    };
    check_nonces(sc, &dirs);
    // the largest legal payloads (65519 bytes: a 65535-byte message) are written and delivered; found missing by the
    // automatic mutants (a stateful write refusing exactly the maximum size survived every check)
    for plen in [65519usize, [65518usize, 65504, 65503][r.below(3)]] {
        let p = r.bytes(plen);
        let o = sc.ex.t_write(1, &p, plen + 16);
        sc.check_panic(&o, "t_write at the size limit");
        sc.count("t.max_size");
        match o.bytes().map(<[u8]>::to_vec) {
            Some(m) => {
                dirs[0].send_n += 1;
                let o2 = sc.ex.t_read(2, &m, plen);
                sc.check_panic(&o2, "t_read at the size limit");
                if o2.bytes() == Some(p.as_slice()) {
                    dirs[0].recv_n += 1;
                } else {
                    sc.viol("C14", format!("{}: transport read of a legal {}-byte message failed: {:?}", cfg.name, m.len(), o2.err()));
                    sc.viol("C02", format!("{}: a {plen}-byte transport payload was not delivered: {:?}", cfg.name, o2.err()));
                }
            },
            None => {
                sc.viol("C14", format!("{}: transport write of a legal {plen}-byte payload failed: {o:?}", cfg.name));
                sc.viol("C02", format!("{}: transport write of a legal {plen}-byte payload failed: {o:?}", cfg.name));
            },
        }
    }
    check_nonces(sc, &dirs);
    // counters far from 0: in half of the scenarios each direction starts just below a power-of-256 boundary (the
    // sender's counter through the hook, the receiver's through set_receiving_nonce), so that the traffic of the
    // scenario crosses 2^8, 2^16, 2^32, 2^63 ...
    if r.chance(1, 2) {
        for d in 0..2usize {
            if oneway && d == 1 {
                continue;
            }
            let base: u64 = [0xfe, 0xffff, 0xff_fffe, 0xffff_fffe, 0xffff_ffff, 0x7fff_ffff_ffff_fffe, 0xffff_ffff_ffff_ff00, 1000][r.below(8)];
            let (w, rd) = if d == 0 { (1u32, 2u32) } else { (2u32, 1u32) };
            sc.ex.set_send_nonce(w, base);
            sc.ex.set_recv_nonce(rd, base);
            dirs[d].send_n = base;
            dirs[d].recv_n = base;
            sc.count("t.counters_far_from_zero");
        }
        check_nonces(sc, &dirs);
    }
    let mut oversize_done = false;
    let mut seen_enc: std::collections::BTreeMap<(Vec<u8>, u64), (Vec<u8>, Vec<u8>)> = std::collections::BTreeMap::new();
    for _step in 0..cfg.steps {
        let mut action = r.below(100);
        // keep the traffic alive: operations that end a direction for good (a counter placed at the end of its range)
        // only in the last fifth of the scenario; before that they become ordinary writes / deliveries
        let late = _step * 5 >= cfg.steps * 4;
        if !late && action >= 94 {
            action = if r.chance(1, 2) { 10 } else { 50 };
        }
        // key changes are a minority of the operations (a third of the draws that select one stay): most of a
        // scenario is traffic under a key both sides hold
        if (70..88).contains(&action) && r.chance(2, 3) {
            action = if r.chance(2, 5) { 10 } else { 45 };
        }
        // in a one-way pattern only the initiator sends; the state-only operations (rekeys, explicit
        // nonces) are still exercised on the unused direction, where they must not disturb the used one
        let d = if oneway { if action >= 70 && r.chance(1, 3) { 1 } else { 0 } } else { r.below(2) };
        if oneway && d == 1 && action >= 94 {
            action = 90;
        }
        let (w, rd) = if d == 0 { (1u32, 2u32) } else { (2u32, 1u32) };
        if action < 30 {
            // write
            let plen = [0usize, 1, 15, 16, 17, 64, 300][r.below(7)];
            let p = r.bytes(plen);
            // sometimes a failing write first: undersized buffer, or (once per scenario) an oversize payload;
            // it must return Input, encrypt nothing, and leave the nonce alone (checked by check_nonces below
            // and by the (key, nonce) log)
            let fault = r.below(6);
            if fault == 0 && dirs[d].send_n != u64::MAX {
                let cap = [0usize, 1, 15, plen, plen + 15][r.below(5)];
                let o = sc.ex.t_write(w, &p, cap);
                sc.check_panic(&o, "t_write undersized buffer");
                sc.count("t.write_short_buffer");
                if o.err() != Some("Input") {
                    sc.viol("C14", format!("{}: transport write of {plen} bytes into a {cap}-byte buffer gave {o:?}", cfg.name));
                    sc.viol("C10", format!("{}: transport write of {plen} bytes into a {cap}-byte buffer gave {o:?}", cfg.name));
                }
                if sc.ex.last_events.iter().any(|e| matches!(e, crate::toy::Ev::Enc { .. })) {
                    sc.viol("C06", format!("{}: a failed transport write encrypted", cfg.name));
                    sc.viol("C09", format!("{}: a failed transport write encrypted", cfg.name));
                }
            } else if fault == 1 && !oversize_done && dirs[d].send_n != u64::MAX {
                oversize_done = true;
                let big = [65520usize, 65535, 65536][r.below(3)];
                let bp = vec![0x5au8; big];
                let o = sc.ex.t_write(w, &bp, big + 16 + r.below(2) * 5000);
                sc.check_panic(&o, "t_write oversize");
                sc.count("t.write_oversize");
                if o.err() != Some("Input") {
                    sc.viol("C14", format!("{}: transport write of a {big}-byte payload gave {o:?}", cfg.name));
                }
                if sc.ex.last_events.iter().any(|e| matches!(e, crate::toy::Ev::Enc { .. })) {
                    sc.viol("C06", format!("{}: a refused oversize transport write encrypted", cfg.name));
                    sc.viol("C09", format!("{}: a refused oversize transport write encrypted", cfg.name));
                }
            }
            let o = sc.ex.t_write(w, &p, plen + 16 + r.below(3));
            sc.check_panic(&o, "t_write");
            sc.count("t.write");
            for e in &sc.ex.last_events.clone() {
                if tainted_any {
                    break;   // the scenario itself installed a key that had been in use (see KeyPool::pick_f)
                }
                if let crate::toy::Ev::Enc { key, n, ad, pt } = e {
                    if let Some((ad0, pt0)) = seen_enc.get(&(key.clone(), *n)) {
                        if ad0 != ad || pt0 != pt {
                            sc.viol("C06", format!("{}: two different transport inputs encrypted under one key at nonce {n}", cfg.name));
                        }
                    } else {
                        seen_enc.insert((key.clone(), *n), (ad.clone(), pt.clone()));
                    }
                }
            }
            let dd = &mut dirs[d];
            if dd.send_n == u64::MAX {
                if o.err() != Some("State(Exhausted)") {
                    sc.viol("C09", format!("{}: write at nonce 2^64-1 gave {o:?}", cfg.name));
                }
                if sc.ex.last_buf.iter().any(|b| *b != FILL) {
                    sc.viol("C09", format!("{}: exhausted write produced bytes", cfg.name));
                }
            } else {
                match o.bytes() {
                    Some(m) => {
                        if m.len() != plen + 16 {
                            sc.viol("C14", format!("{}: transport write length {} for payload {plen}", cfg.name, m.len()));
                        }
                        dd.sent.push((dd.send_n, m.to_vec(), p.clone(), dd.send_key.clone()));
                        dd.send_n += 1;
                    },
                    None => sc.viol("C02", format!("{}: transport write failed: {o:?}", cfg.name)),
                }
            }
            for e in &sc.ex.last_events.clone() {
                if let Ev2::EncNonce(n) = ev2(e) {
                    if n == u64::MAX {
                        sc.viol("C09", format!("{}: message encrypted under nonce 2^64-1", cfg.name));
                    }
                }
            }
        } else if action < 70 {
            // deliver something
            let dd = &dirs[d];
            let kind = r.below(10);
            let (msg, what): (Vec<u8>, &str) = if dd.sent.is_empty() || kind == 0 {
                // garbage of an ordinary size, of 0..15 bytes (shorter than a tag), and around the 65535-byte limit
                ({ let n = match r.below(12) { 0 => r.below(16), 1 => [65535usize, 65536, 65537, 70000][r.below(4)], _ => 16 + r.below(40) }; r.bytes(n) }, "garbage")
            } else if kind <= 4 {
                // the next expected one if it exists
                match dd.sent.iter().rev().find(|(n, _, _, key)| *n == dd.recv_n && *key == dd.recv_key).or_else(|| dd.sent.iter().find(|(n, ..)| *n == dd.recv_n)) {
                    Some(x) => (x.1.clone(), "next"),
                    None => (r.pick(&dd.sent).1.clone(), "any"),
                }
            } else if kind == 5 {
                let mut m = r.pick(&dd.sent).1.clone();
                let i = r.below(m.len());
                m[i] ^= 1 << r.below(8);
                (m, "bitflip")
            } else if kind == 6 {
                let mut m = r.pick(&dd.sent).1.clone();
                match r.below(3) {
                    0 => {
                        m.pop();
                    },
                    1 => m.push(0),
                    _ => m.truncate(r.below(16)), // shorter than a tag
                }
                (m, "resize")
            } else if kind == 7 {
                // reflection: a message of the other direction
                let od = &dirs[1 - d];
                if od.sent.is_empty() { (r.bytes(20), "garbage") } else { (r.pick(&od.sent).1.clone(), "reflected") }
            } else {
                (r.pick(&dd.sent).1.clone(), "any")
            };
            let short_cap = r.chance(1, 8) && msg.len() > 17;
            // payload buffers: one byte short, exact, in between (1..15 spare bytes), message-sized, generous
            let cap = if short_cap { msg.len() - 17 } else if msg.len() >= 16 { msg.len() - 16 + [0usize, 1, 8, 15, 16, 16, 100][r.below(7)] } else { msg.len() };
            let o = sc.ex.t_read(rd, &msg, cap);
            sc.check_panic(&o, "t_read");
            sc.count(&format!("t.read.{what}"));
            if o == Out::Panic && what != "next" {
                sc.viol("C04", format!("{}: delivery of a non-genuine message ({what}, {} bytes) panicked instead of returning an error", cfg.name, msg.len()));
            }
            let mixed_backends = cfg.res_i != cfg.res_r;
            // abstract receiver: accept iff msg is the sender's message number recv_n under the same key epoch
            let dd = &mut dirs[d];
            let genuine = dd.sent.iter().find(|(n, m, _, key)| *n == dd.recv_n && *m == msg && *key == dd.recv_key);
            let mut expect = genuine.map(|x| x.2.clone());
            if expect.is_none() {
                // the APPLICATION installed one and the same key by hand in both directions: a message of the other
                // direction with this counter under that key IS an encryption under (key, counter) -- not snow's doing
                // (identities compared as keys: the split key "k" of a direction is M(<its bytes>) where those are known)
                let raw = sc.raw_keys;
                let canon = |id: &str, dir: usize| match raw {
                    Some((a, b)) => id.replace('k', &format!("M({})", hex(if dir == 0 { &a } else { &b }))),
                    None => id.to_string(),
                };
                let (rn, rk) = (dirs[d].recv_n, canon(&dirs[d].recv_key, d));
                if !rk.contains('k') {
                    if let Some(x) = dirs[1 - d].sent.iter().find(|(n, m, _, key)| *n == rn && *m == msg && canon(key, 1 - d) == rk) {
                        expect = Some(x.2.clone());
                        sc.count("t.same_manual_key_both_directions");
                    }
                }
            }
            let dd = &mut dirs[d];
            if oneway && d == 1 {
                // unreachable: d is always 0 for one-way
            }
            match (&o, expect) {
                (Out::Ok(p), Some(exp)) if !short_cap => {
                    if *p != exp {
                        sc.viol("C04", format!("{}: accepted message returned a different payload", cfg.name));
                    }
                    if p.len() != exp.len() {
                        sc.viol("C14", format!("{}: read of a {}-byte message into a {cap}-byte buffer reports {} payload bytes, not {}", cfg.name, msg.len(), p.len(), exp.len()));
                    }
                    dd.recv_n += 1;
                    sc.count("t.accepted");
                },
                (Out::Ok(_), Some(_)) => {
                    sc.viol("C14", format!("{}: payload read into a buffer 1 byte too small", cfg.name));
                    dd.recv_n += 1;
                },
                (Out::Ok(_), None) => {
                    sc.viol("C04", format!("{}: non-genuine delivery ({what}) accepted at receiving nonce {}", cfg.name, dd.recv_n));
                    sc.viol("C05", format!("{}: out-of-order or foreign delivery ({what}) accepted at receiving nonce {}", cfg.name, dd.recv_n));
                    if dd.sent.iter().any(|(n, m, _, key)| *n == dd.recv_n && *m == msg && *key != dd.recv_key) {
                        sc.viol("C15", format!("{}: message sent under key {} accepted by a receiver that holds key {}", cfg.name, dd.sent.iter().find(|(n, m, ..)| *n == dd.recv_n && *m == msg).map_or("?", |x| x.3.as_str()), dd.recv_key));
                    }
                    dd.recv_n = dd.recv_n.wrapping_add(1);
                },
                (Out::Err(e), Some(_)) if !short_cap && dd.recv_n != u64::MAX => {
                    sc.viol("C05", format!("{}: the next in-order message was rejected: {e}", cfg.name));
                    sc.viol("C04", format!("{}: the peer's genuine message was rejected: {e}", cfg.name));
                    if dd.recv_key != "k" {
                        sc.viol("C15", format!("{}: after key changes both sides hold {} but the next message is rejected: {e}", cfg.name, dd.recv_key));
                    }
                    if mixed_backends {
                        sc.viol("C20", format!("{}: endpoints on backends {} / {} do not interoperate (key {}): {e}", cfg.name, cfg.res_i, cfg.res_r, dd.recv_key));
                    }
                },
                (Out::Err(_), _) => {
                    sc.count("t.rejected");
                    if what == "next" {
                        // why an in-order delivery was (rightly) refused: distribution for the evidence
                        let why = if short_cap { "short_buffer" } else if dd.recv_n == u64::MAX { "exhausted" } else if dd.sent.iter().any(|(n, m, _, key)| *n == dd.recv_n && *m == msg && *key != dd.recv_key) { "key_out_of_sync" } else { "other" };
                        sc.count(&format!("t.next_refused.{why}"));
                    }
                    // C19: no plaintext of any sent message in the buffer
                    if let Some((_, _, p, _)) = dd.sent.iter().find(|(_, m, ..)| m.len() == msg.len() && m[..m.len() - 16] == msg[..msg.len().max(16) - 16]) {
                        if p.len() >= 16 && sc.ex.last_buf.windows(p.len()).any(|w| w == p.as_slice()) {
                            sc.viol("C19", format!("{}: rejected transport message left its plaintext in the buffer", cfg.name));
                        }
                    }
                },
                _ => {},
            }
        } else if action < 78 {
            // synchronised rekey of one direction, at a message boundary: mostly the receiver first catches up with the
            // sender (messages still in flight under the old key are lost; without this the direction would be dead)
            if dirs[d].recv_n != dirs[d].send_n && dirs[d].send_n != u64::MAX && r.chance(3, 4) {
                sc.ex.set_recv_nonce(rd, dirs[d].send_n);
                dirs[d].recv_n = dirs[d].send_n;
            }
            let o1 = sc.ex.rekey(w, "out");
            let o2 = sc.ex.rekey(rd, "in");
            sc.check_panic(&o1, "rekey_outgoing");
            sc.check_panic(&o2, "rekey_incoming");
            dirs[d].send_key = format!("R({})", dirs[d].send_key);
            dirs[d].recv_key = format!("R({})", dirs[d].recv_key);
            sc.count("t.rekey_sync");
        } else if action < 86 && dirs[d].send_key != dirs[d].recv_key && r.chance(4, 5) {
            // the direction is out of sync after a one-sided rekey: mostly, bring it back (the complementary rekey
            // when one side is exactly one REKEY ahead, otherwise the same manual key on both sides), so that the
            // rest of the scenario still has live traffic in this direction
            let sk = dirs[d].send_key.clone();
            let rk = dirs[d].recv_key.clone();
            if dirs[d].recv_n != dirs[d].send_n && dirs[d].send_n != u64::MAX {
                sc.ex.set_recv_nonce(rd, dirs[d].send_n);
                dirs[d].recv_n = dirs[d].send_n;
            }
            if sk == format!("R({rk})") {
                let o = sc.ex.rekey(rd, "in");
                sc.check_panic(&o, "rekey_incoming");
                dirs[d].recv_key = sk;
            } else if rk == format!("R({sk})") {
                let o = sc.ex.rekey(w, "out");
                sc.check_panic(&o, "rekey_outgoing");
                dirs[d].send_key = rk;
            } else {
                let (k, kid, fresh) = pool.pick_f(&mut r, d);
                tainted_any |= !fresh;
                let (ki, kr) = if d == 0 { (Some(&k), None) } else { (None, Some(&k)) };
                let o = sc.ex.rekey_manual(w, ki, kr);
                sc.check_panic(&o, "rekey_manually");
                let o = sc.ex.rekey_manual(rd, ki, kr);
                sc.check_panic(&o, "rekey_manually");
                dirs[d].send_key = kid.clone();
                dirs[d].recv_key = kid;
            }
            sc.count("t.rekey_resync");
        } else if action < 81 {
            // one-sided rekey
            let in_step = dirs[d].send_key == dirs[d].recv_key && dirs[d].send_n == dirs[d].recv_n && dirs[d].send_n < u64::MAX - 2;
            if in_step && r.chance(1, 2) {
                // "the message overtakes the receiver's rekey": the sender rekeys and writes m; m reaches the receiver
                // BEFORE the receiver rekeyed and is refused (nothing moves); the receiver rekeys; the SAME bytes are
                // delivered again and are now the next in-order message (seed C05-L: a remembered rejection)
                let o = sc.ex.rekey(w, "out");
                sc.check_panic(&o, "rekey_outgoing");
                dirs[d].send_key = format!("R({})", dirs[d].send_key);
                let p = r.bytes(20);
                if let Some(m) = sc.ex.t_write(w, &p, 36).bytes().map(<[u8]>::to_vec) {
                    dirs[d].send_n += 1;
                    let o1 = sc.ex.t_read(rd, &m, 20);
                    if o1.is_ok() {
                        sc.viol("C15", format!("{}: a message written after a one-sided rekey was accepted by a receiver that had not rekeyed", cfg.name));
                    }
                    let o = sc.ex.rekey(rd, "in");
                    sc.check_panic(&o, "rekey_incoming");
                    dirs[d].recv_key = format!("R({})", dirs[d].recv_key);
                    let o2 = sc.ex.t_read(rd, &m, 20);
                    sc.count("t.overtaken_rekey");
                    if o2.bytes() == Some(p.as_slice()) {
                        dirs[d].recv_n += 1;
                    } else if !o1.is_ok() {
                        sc.viol("C05", format!("{}: the next in-order message, refused once before the receiver rekeyed, is still refused after it rekeyed: {o2:?}", cfg.name));
                        sc.viol("C15", format!("{}: after a rekey on both sides the pending message is refused: {o2:?}", cfg.name));
                        // keep the abstract state in step with the implementation for the rest of the scenario
                        sc.ex.set_recv_nonce(rd, dirs[d].send_n);
                        dirs[d].recv_n = dirs[d].send_n;
                    } else {
                        dirs[d].recv_n += 1;
                    }
                }
            } else if r.chance(1, 2) {
                let o = sc.ex.rekey(w, "out");
                sc.check_panic(&o, "rekey_outgoing");
                dirs[d].send_key = format!("R({})", dirs[d].send_key);
            } else {
                let o = sc.ex.rekey(rd, "in");
                sc.check_panic(&o, "rekey_incoming");
                dirs[d].recv_key = format!("R({})", dirs[d].recv_key);
            }
            sc.count("t.rekey_onesided");
        } else if action < 88 {
            // manual rekey of direction d on one or both sides
            let (k, kid, fresh) = pool.pick_f(&mut r, d);
            let (k2, kid2, fresh2) = pool.pick_f(&mut r, 1 - d);
            tainted_any |= !fresh || !fresh2;
            let both = r.chance(5, 6);
            // sometimes both direction keys are replaced in one call
            let two = r.chance(1, 3);
            let (ki, kr) = if two {
                if d == 0 { (Some(&k), Some(&k2)) } else { (Some(&k2), Some(&k)) }
            } else if d == 0 {
                (Some(&k), None)
            } else {
                (None, Some(&k))
            };
            if both && !two && dirs[d].recv_n != dirs[d].send_n && dirs[d].send_n != u64::MAX && r.chance(3, 4) {
                sc.ex.set_recv_nonce(rd, dirs[d].send_n);
                dirs[d].recv_n = dirs[d].send_n;
            }
            let o = sc.ex.rekey_manual(w, ki, kr);
            sc.check_panic(&o, "rekey_manually");
            dirs[d].send_key = kid.clone();
            if two {
                dirs[1 - d].recv_key = kid2.clone();
            }
            if both {
                let o = sc.ex.rekey_manual(rd, ki, kr);
                sc.check_panic(&o, "rekey_manually");
                dirs[d].recv_key = kid;
                if two {
                    dirs[1 - d].send_key = kid2;
                }
            }
            sc.count("t.rekey_manual");
        } else if action < 94 {
            // explicit receiving nonce
            let dd = &mut dirs[d];
            let choice = r.below(6);
            if choice <= 1 && !late && !(oneway && d == 1) {
                // a detour to the end of the range and back: the refused calls there (Exhausted) must leave no trace
                let prev = dd.recv_n;
                sc.ex.set_recv_nonce(rd, u64::MAX);
                let o = sc.ex.t_read(rd, &r.bytes(32), 32);
                sc.check_panic(&o, "t_read at 2^64-1");
                if o.err() != Some("State(Exhausted)") {
                    sc.viol("C09", format!("{}: read at nonce 2^64-1 gave {o:?}", cfg.name));
                }
                if choice == 1 {
                    let o = sc.ex.t_read(rd, &r.bytes(16), 0);
                    sc.check_panic(&o, "t_read at 2^64-1");
                }
                sc.ex.set_recv_nonce(rd, prev);
                let prev_s = dd.send_n;
                if prev_s != u64::MAX && r.chance(1, 2) {
                    sc.ex.set_send_nonce(w, u64::MAX);
                    let o = sc.ex.t_write(w, b"never sent", 64);
                    sc.check_panic(&o, "t_write at 2^64-1");
                    if o.err() != Some("State(Exhausted)") {
                        sc.viol("C09", format!("{}: write at nonce 2^64-1 gave {o:?}", cfg.name));
                    }
                    sc.ex.set_send_nonce(w, prev_s);
                }
                sc.count("t.exhaustion_detour");
            }
            let n = match choice {
                0 if late => u64::MAX,
                1 if late => u64::MAX - 1,
                0 | 1 => dd.recv_n,
                2 => 0,
                3 if !dd.sent.is_empty() => r.pick(&dd.sent).0,
                4 => dd.recv_n.wrapping_sub(r.below(4) as u64).min(u64::MAX - 3) % (dd.send_n.max(1) + 8),
                // realign with the sender: the next message it will write (after loss, or after a detour above)
                _ => dd.send_n,
            };
            sc.ex.set_recv_nonce(rd, n);
            dd.recv_n = n;
            sc.count("t.set_recv_nonce");
            // a late / repeated datagram: when the counter was wound back (or forward) onto a message the sender wrote
            // under the receiver's current key, read it straight away; the counter must then be n + 1 exactly
            if n != u64::MAX {
                if let Some((_, m, p, _)) = dd.sent.iter().find(|(sn, _, _, key)| *sn == n && *key == dd.recv_key).cloned() {
                    let o = sc.ex.t_read(rd, &m, p.len() + [0usize, 16, 100][r.below(3)]);
                    sc.check_panic(&o, "t_read after set_receiving_nonce");
                    sc.count("t.read.explicit_nonce");
                    if o.bytes() != Some(p.as_slice()) {
                        sc.viol("C05", format!("{}: message {n} not accepted after set_receiving_nonce({n}): {o:?}", cfg.name));
                    } else {
                        dd.recv_n = n + 1;
                    }
                }
            }
        } else {
            // place the sending nonce near the end (hook)
            let dd = &mut dirs[d];
            let n = u64::MAX - r.below(3) as u64;
            sc.ex.set_send_nonce(w, n);
            dd.send_n = n;
            seen_enc.clear(); // the hook may legitimately place the counter on a used value
            sc.count("t.set_send_nonce");
        }
        // reads at the reserved nonce
        if dirs[d].recv_n == u64::MAX && !(oneway && d == 1) {
            let o = sc.ex.t_read(rd, &r.bytes(32), 32);
            sc.check_panic(&o, "t_read at 2^64-1");
            if o.err() != Some("State(Exhausted)") {
                sc.viol("C09", format!("{}: read at nonce 2^64-1 gave {o:?}", cfg.name));
            }
            for e in &sc.ex.last_events.clone() {
                if matches!(ev2(e), Ev2::DecNonce(u64::MAX)) {
                    sc.viol("C09", format!("{}: decryption attempted under nonce 2^64-1", cfg.name));
                }
            }
            // mostly: back from the end of the range onto a message the sender wrote under the current key (or onto
            // the sender's next one); the refused read must not have cost the session anything
            if r.chance(2, 3) {
                let dd = &mut dirs[d];
                let back = dd.sent.iter().rev().find(|(_, _, _, key)| *key == dd.recv_key).cloned();
                match back {
                    Some((n, m, p, _)) if n != u64::MAX => {
                        sc.ex.set_recv_nonce(rd, n);
                        let o = sc.ex.t_read(rd, &m, p.len() + 16);
                        sc.check_panic(&o, "t_read after the exhaustion error");
                        if o.bytes() != Some(p.as_slice()) {
                            sc.viol("C07", format!("{}: after a read refused with Exhausted, set_receiving_nonce({n}) and the genuine message {n} gave {o:?}", cfg.name));
                            sc.viol("C05", format!("{}: genuine message {n} rejected at receiving nonce {n} (after an Exhausted error)", cfg.name));
                        }
                        dd.recv_n = n + 1;
                    },
                    _ => {
                        if dd.send_n != u64::MAX {
                            sc.ex.set_recv_nonce(rd, dd.send_n);
                            dd.recv_n = dd.send_n;
                        }
                    },
                }
            }
        }
        check_nonces(sc, &dirs);
    }
    // the last usable nonce, deliberately: with both counters of a direction at 2^64-2 and the keys in step, the message
    // is written and delivered (2^64-2 is an ordinary nonce: only 2^64-1 is reserved); both counters then stand at
    // 2^64-1, where a write and a read are refused with the exhaustion error and move nothing (C09, C05, C04)
    for d in 0..2usize {
        if (oneway && d == 1) || dirs[d].send_key != dirs[d].recv_key {
            continue;
        }
        let (w, rd) = if d == 0 { (1u32, 2u32) } else { (2u32, 1u32) };
        sc.ex.set_send_nonce(w, u64::MAX - 1);
        sc.ex.set_recv_nonce(rd, u64::MAX - 1);
        dirs[d].send_n = u64::MAX - 1;
        dirs[d].recv_n = u64::MAX - 1;
        let plen = 16 + r.below(40);
        let p = r.bytes(plen);
        let o = sc.ex.t_write(w, &p, p.len() + 16);
        sc.count("t.last_usable_nonce");
        match o.bytes().map(<[u8]>::to_vec) {
            Some(m) => {
                dirs[d].send_n = u64::MAX;
                let o2 = sc.ex.t_read(rd, &m, p.len());
                if o2.bytes() == Some(p.as_slice()) {
                    dirs[d].recv_n = u64::MAX;
                } else {
                    if p.len() >= 16 && sc.ex.last_buf.windows(p.len()).any(|x| x == p.as_slice()) {
                        sc.viol("C19", format!("{}: the read of the message under nonce 2^64-2 returned {o2:?} but left the decrypted payload in the caller's buffer", cfg.name));
                    }
                    sc.viol("C09", format!("{}: the message under the last usable nonce 2^64-2 was refused by the reader: {o2:?}", cfg.name));
                    sc.viol("C05", format!("{}: the next in-order message (nonce 2^64-2) was rejected: {o2:?}", cfg.name));
                    sc.viol("C04", format!("{}: the peer's genuine message under nonce 2^64-2 was rejected: {o2:?}", cfg.name));
                }
            },
            None => sc.viol("C09", format!("{}: a write at sending nonce 2^64-2 was refused: {o:?}", cfg.name)),
        }
        check_nonces(sc, &dirs);
        if dirs[d].send_n == u64::MAX && dirs[d].recv_n == u64::MAX {
            let o = sc.ex.t_write(w, b"late", 64);
            if o.err() != Some("State(Exhausted)") {
                sc.viol("C09", format!("{}: write at sending nonce 2^64-1 gave {o:?}", cfg.name));
            }
            let o = sc.ex.t_read(rd, &[0x5au8; 40], 64);
            if o.err() != Some("State(Exhausted)") {
                sc.viol("C09", format!("{}: read at receiving nonce 2^64-1 gave {o:?}", cfg.name));
            }
            check_nonces(sc, &dirs);
            // rekeys of an exhausted direction (the specification's, then by hand on both sides): a rekey changes the
            // key and nothing else, the direction stays exhausted (seed C05-N: a rekey rewound the counter to 0)
            sc.ex.rekey(rd, "in");
            sc.ex.rekey(w, "out");
            check_nonces(sc, &dirs);
            let k: [u8; 32] = r.bytes(32).try_into().unwrap();
            let (ki, kr) = if d == 0 { (Some(&k), None) } else { (None, Some(&k)) };
            sc.ex.rekey_manual(w, ki, kr);
            sc.ex.rekey_manual(rd, ki, kr);
            check_nonces(sc, &dirs);
            sc.count("t.rekey_when_exhausted");
            // (C15: a rekey changes the key and nothing else)
            let (qs, qr) = (sc.ex.query(w).and_then(|q| q.sn), sc.ex.query(rd).and_then(|q| q.rn));
            if qs != Some(u64::MAX) || qr != Some(u64::MAX) {
                sc.viol("C15", format!("{}: rekeys of an exhausted direction moved its counters to {qs:?} / {qr:?}", cfg.name));
            }
            let o = sc.ex.t_write(w, b"later", 64);
            if o.err() != Some("State(Exhausted)") {
                sc.viol("C09", format!("{}: write at sending nonce 2^64-1 after rekeys gave {o:?}", cfg.name));
            }
            let o = sc.ex.t_read(rd, &[0xa5u8; 40], 64);
            if o.err() != Some("State(Exhausted)") {
                sc.viol("C09", format!("{}: read at receiving nonce 2^64-1 after rekeys gave {o:?}", cfg.name));
                sc.viol("C05", format!("{}: an exhausted receiving direction took part in a read again after rekeys: {o:?}", cfg.name));
            }
            check_nonces(sc, &dirs);
        }
    }
    if oneway {
        let o = sc.ex.t_write(2, b"x", 64);
        if o.err() != Some("State(OneWay)") {
            sc.viol("C11", format!("{}: responder write in one-way transport gave {o:?}", cfg.name));
        }
        let o = sc.ex.t_read(1, &[0u8; 32], 64);
        if o.err() != Some("State(OneWay)") {
            sc.viol("C11", format!("{}: initiator read in one-way transport gave {o:?}", cfg.name));
        }
    }
}

enum Ev2 {
    EncNonce(u64),
    DecNonce(u64),
    Other,
}
fn ev2(e: &crate::toy::Ev) -> Ev2 {
    match e {
        crate::toy::Ev::Enc { n, .. } => Ev2::EncNonce(*n),
        crate::toy::Ev::Dec { n, .. } => Ev2::DecNonce(*n),
        _ => Ev2::Other,
    }
}

/// Stateless transport: arbitrary nonces, any order, repetition; equality with the stateful sender.
pub fn run_stateless(cfg: &TransportCfg, sc: &mut Sc) {
    let cfg = &cfg.adapted();
    sc.ex.comment(&format!("stateless {} res_i={} res_r={}", cfg.name, cfg.res_i, cfg.res_r));
    // pair A: stateless (sids 1,2). pair B: the same session in stateful mode (sids 3,4) for byte comparison.
    if !quick_pair(sc, &cfg.name, &cfg.res_i, &cfg.res_r, cfg.seed, true) {
        sc.ex.comment("pair not available");
        return;
    }
    let oneway = {
        let pat: String = cfg.name.split('_').nth(1).unwrap().chars().take_while(|c| !c.is_ascii_lowercase()).collect();
        inst_of(&pat, &[]).map_or(false, |i| i.msgs.len() == 1)
    };
    let mut r = Rng64(cfg.seed ^ 0x7374617465);
    let mut written: Vec<(usize, u64, Vec<u8>, Vec<u8>)> = vec![];
    // symbolic key identities per direction: what the sender sends with / the receiver receives with
    let mut skey = ["k".to_string(), "k".to_string()];
    let mut rkey = ["k".to_string(), "k".to_string()];
    let mut pool = KeyPool::new(sc.raw_keys);
    let st_rs0: [Option<Vec<u8>>; 2] = [sc.ex.query(1).and_then(|q| q.rs), sc.ex.query(2).and_then(|q| q.rs)];
    let mut rekeyed = false;
    // boundary payload sizes: the largest legal payloads must round-trip, one more must be refused (C14, C16)
    {
        // (done before any key change so that both sides are certainly in sync)
        for plen in [65519usize, [65518usize, 65504, 65503][r.below(3)]] {
            let p = r.bytes(plen);
            let n = r.next() % 1000;
            let o = sc.ex.st_write(1, n, &p, plen + 16);
            sc.check_panic(&o, "st_write at the size limit");
            match o.bytes().map(<[u8]>::to_vec) {
                Some(m) => {
                    let o2 = sc.ex.st_read(2, n, &m, plen);
                    sc.check_panic(&o2, "st_read at the size limit");
                    if o2.bytes() != Some(p.as_slice()) {
                        sc.viol("C16", format!("{}: {plen}-byte payload written under nonce {n} is not read back: {:?}", cfg.name, o2.err()));
                        sc.viol("C14", format!("{}: stateless read of a legal {}-byte message failed: {:?}", cfg.name, m.len(), o2.err()));
                    }
                },
                None => sc.viol("C14", format!("{}: stateless write of a legal {plen}-byte payload failed: {o:?}", cfg.name)),
            }
        }
        let o = sc.ex.st_write(1, 1, &vec![0u8; 65520], 70000);
        if o.err() != Some("Input") {
            sc.viol("C14", format!("{}: stateless write of a 65520-byte payload gave {o:?}", cfg.name));
        }
        // a delivery longer than 65535 bytes (source coverage measured with tools/coverage.sh showed that this guard of
        // the stateless read was never reached): refused with the input error whatever the buffer
        let big = [65536usize, 65537, 65551, 70000][r.below(4)];
        let cap = [0usize, 16, 65535, 70000][r.below(4)];
        let o = sc.ex.st_read(2, r.next() % 1000, &r.bytes(big), cap);
        sc.check_panic(&o, "st_read of an over-long message");
        sc.count("st.oversize_read");
        if o.err() != Some("Input") {
            sc.viol("C14", format!("{}: stateless read of a {big}-byte message gave {o:?}", cfg.name));
        }
        // a genuine message read into a payload buffer that is too small: refused (no panic), then read properly
        // (found missing by the automatic mutants: the length guard of the stateless decrypt survived weakened)
        let p = r.bytes(24);
        let n = r.next() % 1000;
        if let Some(m) = sc.ex.st_write(1, n, &p, 40).bytes().map(<[u8]>::to_vec) {
            for cap in [0usize, 1, 23] {
                let o = sc.ex.st_read(2, n, &m, cap);
                sc.check_panic(&o, "st_read into an undersized buffer");
                sc.count("st.undersized_read");
                if o.is_ok() {
                    sc.viol("C14", format!("{}: stateless read of a 24-byte payload into a {cap}-byte buffer succeeded", cfg.name));
                }
            }
            let o = sc.ex.st_read(2, n, &m, 24);
            if o.bytes() != Some(p.as_slice()) {
                sc.viol("C16", format!("{}: stateless read after refused undersized reads failed: {o:?}", cfg.name));
            }
        }
    }
    for step in 0..cfg.steps {
        let d = if oneway { 0 } else { r.below(2) };
        let (w, rd) = if d == 0 { (1u32, 2u32) } else { (2u32, 1u32) };
        // from the middle of the run on: rekeys (synchronised, one-sided, manual with one or both keys)
        if step > cfg.steps / 2 && r.chance(1, 6) {
            rekeyed = true;
            match r.below(4) {
                0 => {
                    sc.ex.rekey(w, "out");
                    sc.ex.rekey(rd, "in");
                    skey[d] = format!("R({})", skey[d]);
                    rkey[d] = format!("R({})", rkey[d]);
                },
                1 => {
                    if r.chance(1, 2) {
                        sc.ex.rekey(w, "out");
                        skey[d] = format!("R({})", skey[d]);
                    } else {
                        sc.ex.rekey(rd, "in");
                        rkey[d] = format!("R({})", rkey[d]);
                    }
                },
                _ => {
                    let (k, kid) = pool.pick(&mut r, d);
                    let (k2, kid2) = pool.pick(&mut r, 1 - d);
                    let two = r.chance(1, 2);
                    let (ki, kr) = if two { if d == 0 { (Some(&k), Some(&k2)) } else { (Some(&k2), Some(&k)) } } else if d == 0 { (Some(&k), None) } else { (None, Some(&k)) };
                    sc.ex.rekey_manual(w, ki, kr);
                    skey[d] = kid.clone();
                    if two {
                        rkey[1 - d] = kid2.clone();
                    }
                    if r.chance(2, 3) {
                        sc.ex.rekey_manual(rd, ki, kr);
                        rkey[d] = kid;
                        if two {
                            skey[1 - d] = kid2;
                        }
                    }
                },
            }
            for sid in [1u32, 2u32] {
                if let Some(q) = sc.ex.query(sid) {
                    if q.rs != st_rs0[(sid - 1) as usize] {
                        sc.viol("C17", format!("{}: stateless sid {sid} reports remote static {:?} after a key change, at conversion it was {:?}", cfg.name, q.rs.as_ref().map(|v| hex(v)), st_rs0[(sid - 1) as usize].as_ref().map(|v| hex(v))));
                    }
                }
            }
            // after a key change: one message in each usable direction, accepted iff the key identities agree
            for dd in 0..(if oneway { 1 } else { 2 }) {
                let (w2, rd2) = if dd == 0 { (1u32, 2u32) } else { (2u32, 1u32) };
                let p = r.bytes(24);
                let n2 = r.next() % 1000;
                if let Some(m) = sc.ex.st_write(w2, n2, &p, 40).bytes().map(<[u8]>::to_vec) {
                    let o = sc.ex.st_read(rd2, n2, &m, 24);
                    let insync = skey[dd] == rkey[dd];
                    if insync && o.bytes() != Some(p.as_slice()) {
                        sc.viol("C15", format!("{}: stateless message after key change not delivered although both sides hold key {}: {o:?}", cfg.name, skey[dd]));
                    }
                    if !insync && o.is_ok() {
                        sc.viol("C15", format!("{}: stateless message accepted although sender key {} and receiver key {} differ", cfg.name, skey[dd], rkey[dd]));
                    }
                }
            }
            continue;
        }
        if rekeyed {
            // the plain part of the run (purity, nonce handling) is exercised before the first key change
            continue;
        }
        let n = match r.below(8) {
            0 => u64::MAX,
            1 => u64::MAX - 1,
            2 => 0,
            3 => { let b = 1u64 << (r.below(64) as u64); if r.chance(1, 2) { b } else { b.wrapping_sub(1) } },
            4 => r.next(),
            _ => r.next() % 5,
        };
        if r.chance(1, 2) || written.is_empty() {
            let plen = [0usize, 1, 16, 40][r.below(4)];
            let p = r.bytes(plen);
            // an undersized output buffer (0 .. payload+15 bytes) is refused with Input, whatever the nonce
            if r.chance(1, 4) && n != u64::MAX {
                let cap = [0usize, 1, 15, plen, plen + 15][r.below(5)];
                let o = sc.ex.st_write(w, n, &p, cap);
                sc.check_panic(&o, "st_write undersized buffer");
                sc.count("st.write_short_buffer");
                if o.err() != Some("Input") {
                    sc.viol("C14", format!("{}: stateless write of {plen} bytes into a {cap}-byte buffer gave {o:?}", cfg.name));
                    sc.viol("C10", format!("{}: stateless write of {plen} bytes into a {cap}-byte buffer gave {o:?}", cfg.name));
                }
            }
            let o = sc.ex.st_write(w, n, &p, plen + 16);
            sc.check_panic(&o, "st_write");
            if n == u64::MAX {
                if o.err() != Some("State(Exhausted)") {
                    sc.viol("C09", format!("{}: stateless write under 2^64-1 gave {o:?}", cfg.name));
                }
                // the refused call must not have touched the cipher or the buffer (C06, C09)
                if sc.ex.last_events.iter().any(|e| matches!(e, crate::toy::Ev::Enc { .. })) {
                    sc.viol("C09", format!("{}: refused stateless write encrypted under nonce 2^64-1", cfg.name));
                    sc.viol("C06", format!("{}: refused stateless write encrypted under (key, 2^64-1), the pair rekey uses", cfg.name));
                }
                if sc.ex.last_buf.iter().any(|b| *b != FILL) {
                    sc.viol("C09", format!("{}: refused stateless write produced bytes", cfg.name));
                }
            } else if let Some(m) = o.bytes() {
                // purity: the same call again gives the same bytes
                let o2 = sc.ex.st_write(w, n, &p, plen + 16);
                if o2.bytes() != Some(m) {
                    sc.viol("C16", format!("{}: stateless write is not deterministic", cfg.name));
                }
                written.push((d, n, m.to_vec(), p));
            } else {
                sc.viol("C16", format!("{}: stateless write failed: {o:?}", cfg.name));
            }
        } else {
            let (wd, wn, m, p) = r.pick(&written).clone();
            let rd2 = if wd == 0 { 2 } else { 1 };
            let use_n = if r.chance(2, 3) { wn } else { n };
            let o = sc.ex.st_read(rd2, use_n, &m, p.len());
            sc.check_panic(&o, "st_read");
            if use_n == wn {
                if o.bytes() != Some(p.as_slice()) {
                    sc.viol("C16", format!("{}: message written under nonce {wn} not read back: {o:?}", cfg.name));
                }
            } else if o.is_ok() {
                sc.viol("C04", format!("{}: message written under nonce {wn} accepted under {use_n}", cfg.name));
            } else if use_n == u64::MAX && o.err() != Some("State(Exhausted)") {
                sc.viol("C09", format!("{}: stateless read under 2^64-1 gave {o:?}", cfg.name));
            }
            // tampered copies, with exact, in-between and generous payload buffers (C04, C19)
            if !m.is_empty() {
                let mut bad = m.clone();
                let i = r.below(bad.len());
                bad[i] ^= 1 << r.below(8);
                let cap = p.len() + [0usize, 7, 16, 40][r.below(4)];
                let o = sc.ex.st_read(rd2, wn, &bad, cap);
                sc.check_panic(&o, "st_read tampered");
                if o == Out::Panic {
                    sc.viol("C04", format!("{}: tampered stateless message panicked instead of returning an error", cfg.name));
                }
                if o.is_ok() {
                    sc.viol("C04", format!("{}: tampered stateless message accepted", cfg.name));
                } else if p.len() >= 16 && sc.ex.last_buf.windows(p.len()).any(|w| w == p.as_slice()) {
                    sc.viol("C19", format!("{}: rejected stateless message left its plaintext in the {cap}-byte buffer", cfg.name));
                }
            }
            // truncated to fewer bytes than a tag (0..15): an error, never a panic (C04, C10)
            if r.chance(1, 3) {
                let cut = r.below(16).min(m.len());
                let o = sc.ex.st_read(rd2, wn, &m[..cut], 64);
                sc.check_panic(&o, "st_read shorter than a tag");
                sc.count("st.read_short");
                if o == Out::Panic {
                    sc.viol("C04", format!("{}: stateless message truncated to {cut} bytes panicked instead of returning an error", cfg.name));
                }
                if o.is_ok() {
                    sc.viol("C04", format!("{}: stateless message truncated to {cut} bytes accepted", cfg.name));
                }
            }
            // reflection
            let o = sc.ex.st_read(if wd == 0 { 1 } else { 2 }, wn, &m, p.len());
            // (unless the application itself installed one and the same key by hand in both directions)
            let wdi = if wd == 0 { 0 } else { 1 };
            let raw = sc.raw_keys;
            let canon = |id: &str, dir: usize| match raw {
                Some((a, b)) => id.replace('k', &format!("M({})", hex(if dir == 0 { &a } else { &b }))),
                None => id.to_string(),
            };
            let same_manual = !canon(&skey[wdi], wdi).contains('k') && canon(&skey[wdi], wdi) == canon(&rkey[1 - wdi], 1 - wdi);
            if o.is_ok() && !(oneway) && !same_manual {
                sc.viol("C04", format!("{}: message reflected to its sender was accepted", cfg.name));
            }
            let _ = rd;
        }
    }
    // one-way rules in stateless transport (C11): the responder cannot write, the initiator cannot read,
    // and the responder can read what the initiator writes
    if oneway {
        let o = sc.ex.st_write(2, 7, b"x", 64);
        sc.check_panic(&o, "st_write by a one-way responder");
        if o.err() != Some("State(OneWay)") {
            sc.viol("C11", format!("{}: responder write in one-way stateless transport gave {o:?}", cfg.name));
        }
        let o = sc.ex.st_read(1, 7, &[0u8; 32], 64);
        sc.check_panic(&o, "st_read by a one-way initiator");
        if o.err() != Some("State(OneWay)") {
            sc.viol("C11", format!("{}: initiator read in one-way stateless transport gave {o:?}", cfg.name));
        }
        if !rekeyed {
            if let Some(m) = sc.ex.st_write(1, 9, b"one-way", 64).bytes().map(<[u8]>::to_vec) {
                let o = sc.ex.st_read(2, 9, &m, 64);
                if o.bytes() != Some(b"one-way".as_slice()) {
                    sc.viol("C11", format!("{}: responder cannot read the initiator's message in one-way stateless transport: {o:?}", cfg.name));
                }
            }
        }
    }
    // equality with the stateful sender: fresh identical pair in stateful mode
    // (messages in `written` all predate the first key change)
    sc.ex.drop_session(1);
    sc.ex.drop_session(2);
    if !quick_pair(sc, &cfg.name, &cfg.res_i, &cfg.res_r, cfg.seed, false) {
        return;
    }
    let mut per_dir: [Vec<(u64, Vec<u8>, Vec<u8>)>; 2] = [vec![], vec![]];
    for (d, n, m, p) in &written {
        per_dir[*d].push((*n, m.clone(), p.clone()));
    }
    for d in 0..2 {
        let w = if d == 0 { 1 } else { 2 };
        for (n, m, p) in per_dir[d].iter().take(6) {
            sc.ex.set_send_nonce(w, *n);
            let o = sc.ex.t_write(w, p, p.len() + 16);
            if o.bytes() != Some(m.as_slice()) {
                sc.viol("C16", format!("{}: stateless message under nonce {n} differs from the stateful sender's", cfg.name));
            }
        }
    }
}

// ------------------------------------------------------------------ builder API: setters, generate_keypair

/// Chains of setter calls (with repetitions and out-of-range psk positions) and `generate_keypair` on every resolver
/// with scripted random streams. Oracles: C10 (no panic), C12 (first repeated parameter / position > 9 is reported),
/// C18/C02 (generated pair is consistent: public key of the private key, right lengths, private key = the draw).
pub fn gen_api(run: &mut Run, seed: u64, thorough: bool) {
    let mut r = Rng64(seed ^ 0x617069);
    let mut sc = Sc::new();
    sc.ex.comment("builder setters");
    for _ in 0..(if thorough { 600 } else { 120 }) {
        let n = r.below(9);
        let mut items: Vec<String> = vec![];
        let mut seen_psk = [false; 10];
        let (mut s, mut pro, mut rs) = (false, false, false);
        let mut expect: Option<&str> = None;
        for _ in 0..n {
            let k = r.below(7);
            let item = match k {
                0 | 1 | 2 => {
                    let loc = if r.chance(1, 5) { [10usize, 10, 11, 255, 10 + r.below(246)][r.below(5)] } else { r.below(10) };
                    if expect.is_none() {
                        if loc >= 10 {
                            expect = Some("Init(ValidatePskPosition)");
                        } else if seen_psk[loc] {
                            expect = Some("Init(ParameterOverwrite)");
                        } else {
                            seen_psk[loc] = true;
                        }
                    }
                    format!("psk:{loc}:{}", hex(&r.bytes(32)))
                },
                3 => {
                    if expect.is_none() && s {
                        expect = Some("Init(ParameterOverwrite)");
                    }
                    s = true;
                    let l = [0usize, 1, 32, 33][r.below(4)];
                    format!("s:{}", if l == 0 { "-".to_string() } else { hex(&r.bytes(l)) })
                },
                4 => format!("e:{}", hex(&r.bytes(32))),
                5 => {
                    if expect.is_none() && pro {
                        expect = Some("Init(ParameterOverwrite)");
                    }
                    pro = true;
                    let l = r.below(5);
                    format!("pro:{}", if l == 0 { "-".to_string() } else { hex(&r.bytes(l)) })
                },
                _ => {
                    if expect.is_none() && rs {
                        expect = Some("Init(ParameterOverwrite)");
                    }
                    rs = true;
                    format!("rs:{}", hex(&r.bytes(32)))
                },
            };
            items.push(item);
        }
        let spec = if items.is_empty() { "-".to_string() } else { items.join(",") };
        let o = sc.ex.setters(&spec);
        sc.check_panic(&o, "builder setters");
        sc.count("api.setters");
        match (expect, &o) {
            (None, Out::Ok(_)) => {},
            (Some(e), Out::Err(got)) if got == e => {},
            (exp, got) => sc.viol("C12", format!("setter chain `{spec}` gave {got:?}, expected {exp:?}")),
        }
    }
    run.add("api", "builder setters".into(), sc);

    let mut sc = Sc::new();
    sc.ex.comment("generate_keypair");
    let cases = [
        ("toy", "Noise_NN_25519_ChaChaPoly_SHA256", 32usize, 32usize),
        ("toy", "Noise_NN_448_ChaChaPoly_SHA256", 32, 56),
        ("toy", "Noise_NN_P256_ChaChaPoly_SHA256", 32, 65),
        ("default", "Noise_NN_25519_ChaChaPoly_SHA256", 32, 32),
        ("default", "Noise_XX_P256_AESGCM_BLAKE2s", 32, 65),
        ("fb(ring,default)", "Noise_NN_25519_AESGCM_SHA512", 32, 32),
        ("fb(none,default)", "Noise_IK_25519_ChaChaPoly_BLAKE2b", 32, 32),
        ("ring", "Noise_NN_25519_AESGCM_SHA512", 0, 0),          // ring has no DH: GetDhImpl
        ("toy-norng", "Noise_NN_25519_ChaChaPoly_SHA256", 0, 0), // GetRngImpl
        ("toy-nodh", "Noise_NN_25519_ChaChaPoly_SHA256", 0, 0),  // GetDhImpl
        ("none", "Noise_NN_25519_ChaChaPoly_SHA256", 0, 0),
    ];
    for rep in 0..(if thorough { 12 } else { 3 }) {
        for (res, name, priv_len, pub_len) in cases {
            if !FULL && (res.contains("ring") || name.contains("P256")) {
                continue;
            }
            let mut rng = r.bytes(64);
            if rep == 1 {
                rng = vec![0xff; 64]; // not a valid P-256 scalar
            }
            if rep == 2 {
                rng = r.bytes(7); // a short script: the scripted RNG pads with zeros
            }
            let o = sc.ex.genkey(res, name, &rng);
            sc.count("api.genkey");
            if o == Out::Panic {
                if name.contains("P256") && res == "default" {
                    sc.viol("C10", "panic in Builder::generate_keypair with use-p256 and a random draw that is not a valid P-256 scalar".into());
                } else {
                    sc.viol("C10", format!("panic in Builder::generate_keypair ({res}, {name})"));
                }
                continue;
            }
            match &o {
                Out::Ok(both) => {
                    if priv_len == 0 {
                        sc.viol("C12", format!("generate_keypair succeeded on resolver {res} which lacks an rng or a dh"));
                        continue;
                    }
                    if both.len() != priv_len + pub_len {
                        sc.viol("C18", format!("generate_keypair ({res}, {name}): lengths {} != {priv_len}+{pub_len}", both.len()));
                        continue;
                    }
                    let (sk, pk) = both.split_at(priv_len);
                    let mut drawn = rng.clone();
                    drawn.resize(priv_len.max(drawn.len()), 0);
                    if sk != &drawn[..priv_len] {
                        sc.viol("C06", format!("generate_keypair ({res}, {name}): the private key is not the random draw"));
                    }
                    if crate::gen::pub_of(res, name.split('_').nth(2).unwrap_or("25519"), sk).as_deref() != Some(pk) {
                        sc.viol("C18", format!("generate_keypair ({res}, {name}): the public key is not the public key of the private key"));
                        sc.viol("C02", format!("generate_keypair ({res}, {name}): inconsistent key pair"));
                    }
                },
                Out::Err(e) => {
                    if priv_len != 0 {
                        sc.viol("C12", format!("generate_keypair failed on a complete resolver {res}: {e}"));
                    }
                },
                _ => {},
            }
        }
    }
    run.add("api", "generate_keypair".into(), sc);
}
