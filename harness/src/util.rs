//! PRNG, pattern information taken from the running code, and the small "spec automaton"
//! the implementation oracles use.

use snow::params::{HandshakeModifier, SUPPORTED_HANDSHAKE_PATTERNS};

#[derive(Clone)]
pub struct Rng64(pub u64);

impl Rng64 {
    pub fn next(&mut self) -> u64 {
        self.0 = self.0.wrapping_add(0x9e3779b97f4a7c15);
        let mut z = self.0;
        z = (z ^ (z >> 30)).wrapping_mul(0xbf58476d1ce4e5b9);
        z = (z ^ (z >> 27)).wrapping_mul(0x94d049bb133111eb);
        z ^ (z >> 31)
    }
    pub fn below(&mut self, n: usize) -> usize {
        if n == 0 { 0 } else { (self.next() % n as u64) as usize }
    }
    pub fn chance(&mut self, num: usize, den: usize) -> bool {
        self.below(den) < num
    }
    pub fn bytes(&mut self, n: usize) -> Vec<u8> {
        let mut v = Vec::with_capacity(n);
        while v.len() < n {
            v.extend_from_slice(&self.next().to_le_bytes());
        }
        v.truncate(n);
        v
    }
    pub fn pick<'a, T>(&mut self, xs: &'a [T]) -> &'a T {
        &xs[self.below(xs.len())]
    }
    pub fn fork(&mut self) -> Rng64 {
        Rng64(self.next())
    }
}

#[derive(Clone, Copy, PartialEq, Debug)]
pub enum Tok {
    E,
    S,
    Ee,
    Es,
    Se,
    Ss,
    Psk(u8),
}

#[derive(Clone, Debug)]
pub struct Inst {
    pub pre_i: Vec<Tok>,
    pub pre_r: Vec<Tok>,
    pub msgs: Vec<Vec<Tok>>,
}

fn parse_toks(s: &str) -> Vec<Tok> {
    s.split(',')
        .filter(|t| !t.is_empty())
        .map(|t| match t {
            "e" => Tok::E,
            "s" => Tok::S,
            "ee" => Tok::Ee,
            "es" => Tok::Es,
            "se" => Tok::Se,
            "ss" => Tok::Ss,
            p => Tok::Psk(p.trim_start_matches("psk").parse().unwrap()),
        })
        .collect()
}

/// Parse a `tokens_line` result ("ok pre_i=[..] pre_r=[..] msgs=[..|..]").
pub fn parse_tokens_line(line: &str) -> Option<Inst> {
    let rest = line.strip_prefix("ok ")?;
    let mut pre_i = None;
    let mut pre_r = None;
    let mut msgs = None;
    for part in rest.split(' ') {
        if let Some(x) = part.strip_prefix("pre_i=[") {
            pre_i = Some(parse_toks(x.strip_suffix(']')?));
        } else if let Some(x) = part.strip_prefix("pre_r=[") {
            pre_r = Some(parse_toks(x.strip_suffix(']')?));
        } else if let Some(x) = part.strip_prefix("msgs=[") {
            msgs = Some(x.strip_suffix(']')?.split('|').map(parse_toks).collect());
        }
    }
    Some(Inst { pre_i: pre_i?, pre_r: pre_r?, msgs: msgs? })
}

pub fn pattern_names() -> Vec<&'static str> {
    SUPPORTED_HANDSHAKE_PATTERNS.iter().map(|p| p.as_str()).collect()
}

pub fn pattern_index(name: &str) -> Option<usize> {
    SUPPORTED_HANDSHAKE_PATTERNS.iter().position(|p| p.as_str() == name)
}

/// Token instance of the *running code* for pattern + psk modifiers.
pub fn inst_of(pattern: &str, psks: &[u8]) -> Option<Inst> {
    let idx = pattern_index(pattern)?;
    let mods: Vec<HandshakeModifier> = psks.iter().map(|n| HandshakeModifier::Psk(*n)).collect();
    parse_tokens_line(&snow::verif_hooks::tokens_line(idx, &mods))
}

pub fn mods_suffix(psks: &[u8]) -> String {
    psks.iter().map(|n| format!("psk{n}")).collect::<Vec<_>>().join("+")
}

/// Per-message field layout according to the specification: for message `k`, the list of
/// (field kind, encrypted?) and whether the payload is encrypted.
#[derive(Clone, Debug, PartialEq)]
pub enum Field {
    E,
    S { enc: bool },
    Payload { enc: bool },
}

pub fn layout(inst: &Inst, is_psk: bool) -> Vec<Vec<Field>> {
    let mut keyed = false;
    let mut out = Vec::new();
    for m in &inst.msgs {
        let mut fs = Vec::new();
        for t in m {
            match t {
                Tok::E => {
                    fs.push(Field::E);
                    if is_psk {
                        keyed = true;
                    }
                },
                Tok::S => fs.push(Field::S { enc: keyed }),
                Tok::Psk(_) => keyed = true,
                _ => keyed = true,
            }
        }
        fs.push(Field::Payload { enc: keyed });
        out.push(fs);
    }
    out
}

pub fn field_len(f: &Field, pub_len: usize, payload_len: usize) -> usize {
    match f {
        Field::E => pub_len,
        Field::S { enc } => pub_len + if *enc { 16 } else { 0 },
        Field::Payload { enc } => payload_len + if *enc { 16 } else { 0 },
    }
}

pub fn msg_len(fs: &[Field], pub_len: usize, payload_len: usize) -> usize {
    fs.iter().map(|f| field_len(f, pub_len, payload_len)).sum()
}

/// Does the role send `s` in some message / have `s` in its pre-message?
pub fn role_uses_s(inst: &Inst, initiator: bool) -> bool {
    let pre = if initiator { &inst.pre_i } else { &inst.pre_r };
    if pre.contains(&Tok::S) {
        return true;
    }
    inst.msgs.iter().enumerate().any(|(k, m)| ((k % 2 == 0) == initiator) && m.contains(&Tok::S))
        || inst.msgs.iter().any(|m| {
            m.iter().any(|t| match t {
                Tok::Ss => true,
                Tok::Se => initiator,
                Tok::Es => !initiator,
                _ => false,
            })
        })
}

/// Is the peer's static key pre-shared to this role?
pub fn role_preknows_rs(inst: &Inst, initiator: bool) -> bool {
    let pre = if initiator { &inst.pre_r } else { &inst.pre_i };
    pre.contains(&Tok::S)
}
