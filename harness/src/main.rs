fn main() {
    print!("{}", snow::verif_hooks::dump_tables());
}
