//! snowh: correspondence harness for snow (see /verif/DESIGN.md section 4.2).
//!
//!   snowh dump                         table dump (hook) + resolver probe
//!   snowh run <prop> <tier> <seed> <outdir>   generate + execute scenarios for one property
//!   snowh exec <opsfile>               re-execute an operation script, print result lines

mod exec;
mod gen;
mod gen2;
mod prim;
mod toy;
mod util;

use exec::{hex, unhex, BuildSpec, Exec};
use gen::*;
use gen2::*;
use std::{fmt::Write as _, fs, io::Read as _};
use util::*;

fn dump() -> String {
    let mut o = snow::verif_hooks::dump_tables();
    for res in ["default", "ring"] {
        for (kind, choices) in [
            ("dh", vec!["Curve25519", "Curve448", "P256"]),
            ("hash", vec!["SHA256", "SHA512", "Blake2s", "Blake2b"]),
            ("cipher", vec!["ChaChaPoly", "XChaChaPoly", "AESGCM"]),
        ] {
            for c in choices {
                let _ = writeln!(o, "resolver {res} {kind} {c} {}", exec::resolve_line(res, kind, c));
            }
        }
        let _ = writeln!(o, "resolver {res} rng - {}", exec::resolve_line(res, "rng", "-"));
    }
    o
}

/// Suites the Lean side can follow: toy resolver for any name; `default`/`ring` for the real ones.
fn suites_for(i: usize, real: bool) -> (String, String, String, String) {
    let dh = if real { ["25519", "P256"][i % 2] } else { DHS[i % 3] };
    let ci = CIPHERS[(i / 2) % 3];
    let ha = HASHES[(i / 3) % 4];
    (dh.into(), ci.into(), ha.into(), if real { "default".into() } else { "toy".into() })
}

fn psk_choices(nmsgs: usize, i: usize) -> Vec<u8> {
    let n = nmsgs as u8;
    match i % 10 {
        0 => vec![],
        1 => vec![0],
        2 => vec![n],
        3 => vec![1],
        4 => vec![0, n],
        // two psk tokens in one message (psk0 and psk1 both go into the first), in either order of the name
        5 => vec![0, 1],
        6 => vec![1, 0],
        7 => vec![n, 0],
        8 => if n >= 2 { vec![1, 2] } else { vec![1] },
        _ => vec![(i as u8 / 10) % (n + 1)],
    }
}

fn base_cfg(pattern: &str, i: usize, seed: u64, real: bool) -> HsCfg {
    let nm = inst_of(pattern, &[]).map_or(1, |x| x.msgs.len());
    let (dh, cipher, hash, res) = suites_for(i, real);
    let mut r = Rng64(seed ^ (i as u64).wrapping_mul(0x51ed));
    let lens = [0usize, 1, 15, 16, 17, 33, 100];
    HsCfg {
        pattern: pattern.into(),
        psks: psk_choices(nm, i),
        dh,
        cipher,
        hash,
        res_i: res.clone(),
        res_r: res,
        fixed_e: false,
        prologue: match i % 3 {
            0 => None,
            1 => {
                let n = match r.below(12) {
                    0 => [55usize, 56, 63, 64, 65, 119, 127, 128, 129][r.below(9)],
                    1 => 200 + r.below(2000),
                    2 if i % 8 == 1 => [65535usize, 65536, 65700, 131_075][r.below(4)],
                    _ => r.below(70),
                };
                Some(r.bytes(n))
            },
            _ => Some(vec![]),
        },
        payload_lens: (0..nm).map(|_| lens[r.below(lens.len())]).collect(),
        faults: vec![],
        stateless: i % 2 == 1,
        transport_msgs: 4,
        query_each_step: false,
        // a superfluous remote static (not the peer's) for a party whose pattern does not pre-share it: every
        // property's scenarios see it now and then (the properties about it set it explicitly)
        wrong_rs: (i / 3 + (seed as usize % 4)) % 5 == 2,
        // psks through the builder, through set_psk after build (both / one side), an extra unused psk slot
        psk_via: [0u8, 1, 0, 2, 0, 3, 1][(i / 2 + (seed as usize % 5)) % 7],
        extra_psk: (i + (seed as usize % 3)) % 4 == 1,
        // NoiseParams.name replaced by a free-form string (same on both sides): shorter than the hash (padded),
        // longer (hashed), empty, non-ASCII
        alias: match (i + (seed as usize % 4)) % 9 {
            2 => Some(format!("AcmeLink/1.0_{pattern}_custom-name-that-is-longer-than-any-hash-output-of-64-bytes_{i}")),
            5 => Some(["A", "", "Noise", "nöise_ü"][i % 4].to_string()),
            _ => None,
        },
        hand_mods: None,
        seed: r.next(),
    }
}

fn all_fault_kinds(nfields: usize, r: &mut Rng64) -> Vec<Fault> {
    let mut v = vec![
        Fault::WriteCapShort(1),
        Fault::WriteCapShort(1 + r.below(20)),
        Fault::WriteOversize,
        Fault::ReadCapShort(1),
        Fault::ReadOversize,
        Fault::OutOfTurn,
        Fault::ReadTamper(Tamper::Truncate(1)),
        Fault::ReadTamper(Tamper::Truncate(1 + r.below(40))),
        Fault::ReadTamper(Tamper::Extend(1)),
        Fault::ReadTamper(Tamper::Extend(16)),
        Fault::ReadTamper(Tamper::Replay),
        Fault::ReadTamper(Tamper::Garbage),
    ];
    for f in 0..nfields {
        v.push(Fault::WriteCapInField(f));
        v.push(Fault::ReadTamper(Tamper::Flip { field: f, at_end: false }));
        v.push(Fault::ReadTamper(Tamper::Flip { field: f, at_end: true }));
    }
    v
}

/// Handshake scenarios. `focus` selects what the property needs.
#[allow(clippy::too_many_lines)]
fn gen_hs(run: &mut Run, prop: &str, seed: u64, thorough: bool) {
    let pats = pattern_names();
    let mut r = Rng64(seed ^ 0x6873);
    let reps = if thorough { 6 } else { 1 };
    for rep in 0..reps {
        for (pi, p) in pats.iter().enumerate() {
            let i = pi + rep * 41 + (seed as usize % 7);
            let nm = inst_of(p, &[]).map_or(1, |x| x.msgs.len());
            for (real, pskset) in {
                // fault-oriented properties: with the toy suite every single psk position of the pattern
                // (a stale key or a misplaced token shows only for particular placements); otherwise the
                // rotating choice of `base_cfg`
                let mut v: Vec<(bool, Option<Vec<u8>>)> = vec![(true, None)];
                if matches!(prop, "C07" | "C06" | "C03" | "C19" | "C14" | "C10") && rep == 0 {
                    v.push((false, Some(vec![])));
                    for n in 0..=(nm as u8) {
                        v.push((false, Some(vec![n])));
                    }
                } else {
                    v.push((false, None));
                    if prop == "C17" {
                        // the plain pattern always: only there is a static key sent in the clear (IN, IX, ...)
                        v.push((false, Some(vec![])));
                        v.push((true, Some(vec![])));
                    }
                }
                v
            } {
                let mut cfg = base_cfg(p, i, r.next(), real);
                if let Some(ps) = pskset {
                    cfg.psks = ps;
                }
                let inst = inst_of(p, &cfg.psks).unwrap();
                let lay = layout(&inst, !cfg.psks.is_empty());
                match prop {
                    // honest runs: random ephemerals, boundary payloads, both transports
                    "C02" | "C01" | "C20" => {
                        if rep % 2 == 1 {
                            cfg.fixed_e = true;
                        }
                        if (prop == "C02" || prop == "C01") && r.chance(1, 3) {
                            let k = r.below(nm);
                            cfg.payload_lens[k] = 65535; // clipped to the maximum for that message
                        }
                        cfg.query_each_step = prop == "C01";
                        if prop == "C20" && real {
                            let mix = ["default", "fb(ring,default)", "fb(default,ring)", "fb(none,default)"];
                            cfg.res_i = mix[i % 4].into();
                            cfg.res_r = mix[(i / 4) % 4].into();
                            // ring supports only SHA-2 and not XChaCha; fb falls back to default
                        }
                        let mut sc = Sc::new();
                        let tr = run_hs(&cfg, &mut sc);
                        if prop == "C20" && real {
                            // same inputs, plain default backend: bytes must be identical
                            let mut cfg2 = cfg.clone();
                            cfg2.res_i = "default".into();
                            cfg2.res_r = "default".into();
                            let tr2 = run_hs(&cfg2, &mut sc);
                            if tr.msgs != tr2.msgs || tr.hh != tr2.hh || tr.transport != tr2.transport {
                                sc.viol("C20", format!("{}: bytes differ between backends {} / {} and default", cfg.name(), cfg.res_i, cfg.res_r));
                            }
                        }
                        run.add("hs", format!("{prop} honest {}", cfg.name()), sc);
                    },
                    // every failure cause x message, with twin comparison under fixed ephemerals
                    "C07" | "C06" | "C10" | "C14" | "C19" | "C03" | "C11" | "C12" | "C17" => {
                        // C07: mostly fixed ephemerals (byte-for-byte twin comparison); in a third the ephemerals are
                        // drawn from the (scripted) random source, so a repeated write draws a NEW one (seed C07-N)
                        cfg.fixed_e = if prop == "C07" { r.chance(2, 3) } else { r.chance(1, 2) };
                        cfg.query_each_step = matches!(prop, "C07" | "C11" | "C17" | "C10");
                        if prop == "C17" && !real {
                            cfg.dh = "P256".into();
                        }
                        if prop == "C17" && real {
                            cfg.dh = ["P256", "25519"][rep % 2].into();
                        }
                        if matches!(prop, "C17" | "C07" | "C19" | "C03") {
                            cfg.wrong_rs = (pi + rep + usize::from(real)) % 2 == 0;
                        }
                        if !cfg.psks.is_empty() && (pi + rep) % 3 == 0 {
                            // the modifier list installed by hand (public fields), in reverse order: same instance
                            cfg.hand_mods = Some(cfg.psks.iter().rev().map(|n| format!("psk{n}")).collect::<Vec<_>>().join(","));
                        }
                        let nfaults = if thorough { 3 } else { 2 };
                        for k in 0..nm {
                            let kinds = all_fault_kinds(lay[k].len(), &mut r);
                            let chosen: Vec<Fault> = match prop {
                                "C03" | "C19" => {
                                    // alterations; and reads of the genuine message that fail for the reader's own
                                    // reasons (then an altered message is delivered before the genuine retry)
                                    let mut v: Vec<Fault> = kinds.iter().filter(|f| matches!(f, Fault::ReadTamper(_) | Fault::ReadCapShort(1))).cloned().collect();
                                    if inst.msgs[k].iter().any(|t| matches!(t, Tok::Psk(_))) {
                                        v.insert(0, Fault::MissingPsk);
                                    }
                                    v
                                },
                                "C14" => {
                                    let mut v: Vec<Fault> = kinds.iter().filter(|f| matches!(f, Fault::WriteCapShort(_) | Fault::WriteCapInField(_) | Fault::WriteOversize | Fault::ReadCapShort(_) | Fault::ReadOversize | Fault::ReadTamper(Tamper::Truncate(_)))).cloned().collect();
                                    // a psk bound late with set_psk: the lengths of the messages before and after are the pattern's
                                    if inst.msgs[k].iter().any(|t| matches!(t, Tok::Psk(_))) {
                                        v.insert(0, Fault::MissingPsk);
                                    }
                                    v
                                },
                                // out-of-phase calls; and rejected deliveries of every kind (an altered cleartext key makes the
                                // DH itself fail for P-256, other alterations fail authentication): the indicators are queried
                                // after each
                                "C11" => {
                                    let mut v = vec![Fault::OutOfTurn, Fault::ReadTamper(Tamper::Garbage), Fault::WriteCapShort(1)];
                                    for f in 0..lay[k].len() {
                                        v.push(Fault::ReadTamper(Tamper::Flip { field: f, at_end: f % 2 == 1 }));
                                    }
                                    v
                                },
                                "C12" => vec![Fault::MissingPsk, Fault::OutOfTurn],  // an out-of-turn call must not cost the session its key material
                                "C17" => vec![
                                    Fault::ReadTamper(Tamper::Flip { field: lay[k].len() - 1, at_end: true }),
                                    Fault::ReadCapShort(1),
                                    // refused writes and out-of-phase calls must not touch the reported key either
                                    Fault::WriteCapShort(1),
                                    Fault::OutOfTurn,
                                ],
                                _ => {
                                    // a psk that is set only after a first, failing attempt (the failure comes in
                                    // the middle of the token loop when the psk token is not the first one)
                                    let mut v = kinds.clone();
                                    if inst.msgs[k].iter().any(|t| matches!(t, Tok::Psk(_))) {
                                        v.insert(0, Fault::MissingPsk);
                                    }
                                    v
                                },
                            };
                            // spread the kinds over scenarios, `nfaults` per scenario
                            let take = if matches!(prop, "C03" | "C14" | "C10" | "C07" | "C06" | "C19" | "C11" | "C17") && (thorough || pi % 2 == rep % 2 || prop == "C03" || prop == "C17") { chosen.len() } else { nfaults.min(chosen.len()) };
                            let mut idx = 0;
                            while idx < take {
                                let mut c = cfg.clone();
                                c.seed = r.next();
                                for f in chosen.iter().skip(idx).take(nfaults) {
                                    c.faults.push((k, f.clone()));
                                }
                                if prop == "C12" && !c.psks.iter().any(|n| inst.msgs[k].contains(&Tok::Psk(*n))) {
                                    break;
                                }
                                idx += nfaults;
                                let mut sc = Sc::new();
                                let tr = run_hs(&c, &mut sc);
                                check_nonce_reuse(&c.name(), &tr, &mut sc);
                                if c.fixed_e && tr.finished {
                                    // twin run without faults: identical bytes (C07)
                                    let mut twin = c.clone();
                                    twin.faults.clear();
                                    let mut sc2 = Sc::new();
                                    let tr2 = run_hs(&twin, &mut sc2);
                                    if tr2.finished && (tr.msgs != tr2.msgs || tr.hh != tr2.hh || tr.transport != tr2.transport) {
                                        sc.viol("C07", format!("{}: bytes after failed calls {:?} differ from the fault-free twin", c.name(), c.faults));
                                    }
                                }
                                run.add("hs", format!("{prop} faults {} {:?}", c.name(), c.faults), sc);
                            }
                        }
                    },
                    _ => {},
                }
            }
        }
    }
}

/// C03: after an accepted (cleartext) alteration the two sides must not both finish cleanly.
fn gen_tamper_continue(run: &mut Run, seed: u64, thorough: bool) {
    let pats = pattern_names();
    let mut r = Rng64(seed ^ 0x74616d70);
    for (pi, p) in pats.iter().enumerate() {
        for real in [false, true] {
            for rep in 0..(if thorough { 4 } else { 1 }) {
                let cfg = base_cfg(p, pi + rep * 13, r.next(), real);
                let inst = inst_of(p, &cfg.psks).unwrap();
                let lay = layout(&inst, !cfg.psks.is_empty());
                let nm = inst.msgs.len();
                for k in 0..nm {
                    for fi in 0..lay[k].len() {
                        let mut sc = Sc::new();
                        run_tamper_continue(&cfg, k, fi, &mut sc, &mut r);
                        run.add("hs", format!("C03 continue {} msg {k} field {fi}", cfg.name()), sc);
                    }
                }
            }
        }
    }
}

fn run_tamper_continue(cfg: &HsCfg, k_alt: usize, field: usize, sc: &mut Sc, r: &mut Rng64) {
    let cfg = &cfg.adapted();
    // honest pair, fixed script; message k_alt is altered in transit and NOT re-delivered
    let name = cfg.name();
    sc.ex.comment(&format!("tamper-continue {name} message {k_alt} field {field}"));
    let inst = inst_of(&cfg.pattern, &cfg.psks).unwrap();
    let lay = layout(&inst, !cfg.psks.is_empty());
    let mut kr = Rng64(cfg.seed);
    let (s_i, s_r) = (kr.bytes(32), kr.bytes(32));
    let (Some(pub_i), Some(pub_r)) = (pub_of(&cfg.res_i, &cfg.dh, &s_i), pub_of(&cfg.res_r, &cfg.dh, &s_r)) else { return };
    let pub_len = pub_i.len();
    let psk: Vec<(u8, Vec<u8>)> = cfg.psks.iter().map(|n| (*n, vec![0x11 + *n; 32])).collect();
    let mk = |initiator: bool, kr: &mut Rng64| BuildSpec { alias: None, mods: None,
        name: name.clone(),
        initiator,
        resolver: cfg.res_i.clone(),
        s: if role_uses_s(&inst, initiator) { Some(if initiator { s_i.clone() } else { s_r.clone() }) } else { None },
        e: None,
        rs: if role_preknows_rs(&inst, initiator) { Some(if initiator { pub_r.clone() } else { pub_i.clone() }) } else { None },
        psks: psk.clone(),
        prologue: cfg.prologue.clone(),
        rng: kr.bytes(64),
    };
    if !sc.ex.build(1, &mk(true, &mut kr)).is_ok() || !sc.ex.build(2, &mk(false, &mut kr)).is_ok() {
        return;
    }
    let mut any_err = false;
    let nmsgs = inst.msgs.len();
    let mut done = [0usize; 3]; // successfully processed messages per session id
    for k in 0..inst.msgs.len() {
        let (w, rd) = if k % 2 == 0 { (1, 2) } else { (2, 1) };
        let plen = 20;
        let p = r.bytes(plen);
        let o = sc.ex.hs_write(w, &p, 400);
        sc.check_panic(&o, "hs_write");
        let Some(mut m) = o.bytes().map(<[u8]>::to_vec) else {
            any_err = true;
            break;
        };
        done[w as usize] += 1;
        if k == k_alt {
            let mut off = 0;
            for f in &lay[k][..field] {
                off += field_len(f, pub_len, plen);
            }
            let fl = field_len(&lay[k][field], pub_len, plen);
            if fl == 0 || off >= m.len() {
                return;
            }
            let pos = off + r.below(fl);
            m[pos] ^= 1 << r.below(8);
        }
        let o = sc.ex.hs_read(rd, &m, 400);
        sc.check_panic(&o, "hs_read");
        if !o.is_ok() {
            any_err = true;
            break;
        }
        done[rd as usize] += 1;
    }
    if any_err {
        // whatever error ended the run (rejected alteration, a DH that fails on the altered key, ...): the
        // indicators are those of the messages processed successfully, and no side that is short of the last
        // message can enter transport mode (C11)
        for sid in [1u32, 2] {
            let pos = done[sid as usize];
            if let Some(q) = sc.ex.query(sid) {
                if q.fin != Some(pos == nmsgs) {
                    sc.viol("C11", format!("{name}: sid {sid} is_handshake_finished={:?} after {pos}/{nmsgs} messages and a failed call", q.fin));
                }
                if pos < nmsgs && q.turn != Some((pos % 2 == 0) == (sid == 1)) {
                    sc.viol("C11", format!("{name}: sid {sid} is_my_turn={:?} at position {pos} after a failed call", q.turn));
                }
            }
            if pos < nmsgs {
                let c = sc.ex.convert(sid, r.chance(1, 2));
                sc.check_panic(&c, "convert before the end");
                if c.err() != Some("State(HandshakeNotFinished)") {
                    sc.viol("C11", format!("{name}: sid {sid} conversion after {pos}/{nmsgs} messages and a failed call gave {c:?}"));
                }
            }
        }
    }
    if !any_err {
        let fi = sc.ex.query(1).and_then(|q| q.fin) == Some(true);
        let fr = sc.ex.query(2).and_then(|q| q.fin) == Some(true);
        if fi && fr {
            sc.viol("C03", format!("{name}: message {k_alt} altered in field {field}, yet both sides finished without error"));
        }
    }
    sc.count(if any_err { "tamper_continue.detected" } else { "tamper_continue.undetected" });
}

/// Sessions built through `Builder::new` (snow's own default resolver): honest runs with fixed ephemerals, so every
/// byte is determined and compared with the model; sids >= 100 (no events on either side).
fn gen_builder_new(run: &mut Run, seed: u64, thorough: bool) {
    let pats = pattern_names();
    let mut r = Rng64(seed ^ 0x6e65_7762);
    for (pi, p) in pats.iter().enumerate() {
        for rep in 0..(if thorough { 4 } else { 1 }) {
            let i = pi + rep * 11 + (seed as usize % 5);
            let mut cfg = base_cfg(p, i, r.next(), true).adapted();
            cfg.res_i = "default".into();
            cfg.res_r = "default".into();
            let name = cfg.name();
            let Some(inst) = inst_of(&cfg.pattern, &cfg.psks) else { continue };
            let mut kr = Rng64(cfg.seed);
            let (s_i, s_r, e_i, e_r) = (kr.bytes(32), kr.bytes(32), kr.bytes(32), kr.bytes(32));
            let (Some(pub_i), Some(pub_r)) = (pub_of("default", &cfg.dh, &s_i), pub_of("default", &cfg.dh, &s_r)) else { continue };
            let psk: Vec<(u8, Vec<u8>)> = cfg.psks.iter().map(|n| (*n, kr.bytes(32))).collect();
            let mut sc = Sc::new();
            sc.ex.comment(&format!("Builder::new {name}"));
            let mk = |initiator: bool| BuildSpec { alias: None, mods: None,
                name: name.clone(),
                initiator,
                resolver: "new".into(),
                s: if role_uses_s(&inst, initiator) { Some(if initiator { s_i.clone() } else { s_r.clone() }) } else { None },
                e: Some(if initiator { e_i.clone() } else { e_r.clone() }),
                rs: if role_preknows_rs(&inst, initiator) { Some(if initiator { pub_r.clone() } else { pub_i.clone() }) } else { None },
                psks: psk.clone(),
                prologue: cfg.prologue.clone(),
                rng: vec![],
            };
            let (bi, br) = (sc.ex.build(101, &mk(true)), sc.ex.build(102, &mk(false)));
            sc.check_panic(&bi, "Builder::new build_initiator");
            sc.check_panic(&br, "Builder::new build_responder");
            if !bi.is_ok() || !br.is_ok() {
                sc.viol("C12", format!("{name}: Builder::new rejects a consistent configuration: {bi:?} {br:?}"));
                run.add("hs", format!("Builder::new {name}"), sc);
                continue;
            }
            sc.count("hs.builder_new");
            let mut ok = true;
            for k in 0..inst.msgs.len() {
                let (w, rd) = if k % 2 == 0 { (101, 102) } else { (102, 101) };
                let pl = [0usize, 1, 16, 40][r.below(4)];
                let p = r.bytes(pl);
                let o = sc.ex.hs_write(w, &p, 600);
                sc.check_panic(&o, "hs_write");
                let Some(m) = o.bytes().map(<[u8]>::to_vec) else {
                    sc.viol("C02", format!("{name}: Builder::new session: write of message {k} failed: {o:?}"));
                    ok = false;
                    break;
                };
                let o = sc.ex.hs_read(rd, &m, p.len() + 16);
                sc.check_panic(&o, "hs_read");
                if o.bytes() != Some(p.as_slice()) {
                    sc.viol("C02", format!("{name}: Builder::new session: message {k} not delivered: {o:?}"));
                    ok = false;
                    break;
                }
            }
            if ok {
                let (qi, qr) = (sc.ex.query(101), sc.ex.query(102));
                if qi.as_ref().and_then(|q| q.hh.clone()) != qr.as_ref().and_then(|q| q.hh.clone()) {
                    sc.viol("C02", format!("{name}: Builder::new session: handshake hashes differ"));
                }
                let stateless = rep % 2 == 1;
                let (ci, cr) = (sc.ex.convert(101, stateless), sc.ex.convert(102, stateless));
                if !ci.is_ok() || !cr.is_ok() {
                    sc.viol("C02", format!("{name}: Builder::new session: conversion failed"));
                } else {
                    let oneway = inst.msgs.len() == 1;
                    for j in 0..3u64 {
                        for (w, rd) in [(101u32, 102u32), (102, 101)] {
                            if oneway && w == 102 {
                                continue;
                            }
                            let pl = 1 + r.below(60);
                            let p = r.bytes(pl);
                            let o = if stateless { sc.ex.st_write(w, j, &p, p.len() + 16) } else { sc.ex.t_write(w, &p, p.len() + 16) };
                            sc.check_panic(&o, "transport write");
                            let Some(m) = o.bytes().map(<[u8]>::to_vec) else {
                                sc.viol("C02", format!("{name}: Builder::new session: transport write failed: {o:?}"));
                                break;
                            };
                            let o = if stateless { sc.ex.st_read(rd, j, &m, p.len()) } else { sc.ex.t_read(rd, &m, p.len()) };
                            sc.check_panic(&o, "transport read");
                            if o.bytes() != Some(p.as_slice()) {
                                sc.viol("C02", format!("{name}: Builder::new session: transport message not delivered: {o:?}"));
                            }
                        }
                    }
                }
            }
            run.add("hs", format!("Builder::new {name}"), sc);
        }
    }
}

/// C08: mismatched configuration never yields a channel.
fn gen_mismatch(run: &mut Run, seed: u64, thorough: bool) {
    let pats = pattern_names();
    let mut r = Rng64(seed ^ 0x6d69736d);
    for (pi, p) in pats.iter().enumerate() {
        for real in [false, true] {
            for rep in 0..(if thorough { 3 } else { 1 }) {
                let i = pi + rep * 17;
                let mut cfg = base_cfg(p, i, r.next(), real);
                if cfg.psks.is_empty() && rep % 2 == 0 && pi % 2 == 0 {
                    cfg.psks = vec![0];
                }
                if real && (pi + rep + seed as usize) % 2 == 0 {
                    // the ring backend for what it provides (the others come from the default resolver)
                    cfg.res_i = "fb(ring,default)".into();
                    cfg.res_r = if (pi / 2) % 2 == 0 { "fb(ring,default)".into() } else { "default".into() };
                }
                for kind in 0..10 {
                    // prologues of structurally interesting lengths (hash block boundaries, the 65535-byte message
                    // limit and multiples of it: a prologue is the one hashed input that may exceed it): every pattern
                    // with the short ones, a rotating eighth of the patterns with the long ones
                    if kind == 8 && !(thorough || (pi + seed as usize) % 8 == usize::from(real)) {
                        continue;
                    }
                    let mut sc = Sc::new();
                    if run_mismatch(&cfg, kind, None, &mut sc, &mut r) {
                        run.add("hs", format!("C08 mismatch kind {kind} {}", cfg.name()), sc);
                    }
                }
            }
        }
        // several psk modifiers, a mismatch in each single slot (toy suite)
        let nm = inst_of(p, &[]).map_or(1, |x| x.msgs.len()) as u8;
        for ps in [vec![0u8, 1], vec![1, 0], vec![0, nm], vec![1, nm]] {
            if ps[0] == ps[1] || inst_of(p, &ps).is_none() {
                continue;
            }
            for slot in 0..ps.len() {
                let mut cfg = base_cfg(p, pi, r.next(), false);
                cfg.psks = ps.clone();
                for kind in [2usize, 5] {
                    if kind == 5 && !thorough && (pi + slot) % 2 == 0 {
                        continue;
                    }
                    let mut sc = Sc::new();
                    if run_mismatch(&cfg, kind, Some(slot), &mut sc, &mut r) {
                        run.add("hs", format!("C08 mismatch kind {kind} slot {slot} {}", cfg.name()), sc);
                    }
                }
            }
        }
    }
}

fn run_mismatch(cfg: &HsCfg, kind: usize, slot: Option<usize>, sc: &mut Sc, r: &mut Rng64) -> bool {
    let cfg = &cfg.adapted();
    let name = cfg.name();
    let inst = inst_of(&cfg.pattern, &cfg.psks).unwrap();
    let mut kr = Rng64(cfg.seed);
    let (s_i, s_r, s_x) = (kr.bytes(32), kr.bytes(32), kr.bytes(32));
    let (Some(pub_i), Some(pub_r), Some(pub_x)) =
        (pub_of(&cfg.res_i, &cfg.dh, &s_i), pub_of(&cfg.res_r, &cfg.dh, &s_r), pub_of(&cfg.res_r, &cfg.dh, &s_x))
    else {
        return false;
    };
    let psk: Vec<(u8, Vec<u8>)> = cfg.psks.iter().map(|n| (*n, vec![0x21 + *n; 32])).collect();
    let mut spec_i = BuildSpec { alias: None, mods: None,
        name: name.clone(),
        initiator: true,
        resolver: cfg.res_i.clone(),
        s: if role_uses_s(&inst, true) { Some(s_i.clone()) } else { None },
        e: None,
        rs: if role_preknows_rs(&inst, true) { Some(pub_r.clone()) } else { None },
        psks: psk.clone(),
        prologue: Some(b"prologue".to_vec()),
        rng: kr.bytes(64),
    };
    let mut spec_r = BuildSpec { alias: None, mods: None,
        name: name.clone(),
        initiator: false,
        resolver: cfg.res_r.clone(),
        s: if role_uses_s(&inst, false) { Some(s_r.clone()) } else { None },
        e: None,
        rs: if role_preknows_rs(&inst, false) { Some(pub_i.clone()) } else { None },
        psks: psk.clone(),
        prologue: Some(b"prologue".to_vec()),
        rng: kr.bytes(64),
    };
    let what = match kind {
        0 => {
            let mut p = b"prologue".to_vec();
            let i = r.below(p.len());
            p[i] ^= 1 << r.below(8);
            spec_r.prologue = Some(p);
            "prologue bit"
        },
        1 => {
            spec_r.prologue = if r.chance(1, 2) { None } else { Some(b"prologue\0".to_vec()) };
            "prologue length"
        },
        2 => {
            if psk.is_empty() {
                return false;
            }
            let j = slot.unwrap_or_else(|| r.below(spec_r.psks.len()));
            let b = r.below(32);
            spec_r.psks[j].1[b] ^= 1 << r.below(8);
            "psk bit"
        },
        3 => {
            // a pre-shared static key that is not the peer's
            if spec_i.rs.is_some() {
                spec_i.rs = Some(pub_x.clone());
                "initiator's copy of the responder static"
            } else if spec_r.rs.is_some() {
                spec_r.rs = Some(pub_x.clone());
                "responder's copy of the initiator static"
            } else {
                return false;
            }
        },
        6 => {
            // the same point in its other encoding: X25519 ignores the top bit of a u-coordinate, so the DH
            // outputs agree, but the two parties do not hold the same pre-shared key bytes
            if cfg.dh != "25519" || cfg.res_i == "toy" {
                return false;
            }
            if let Some(k) = spec_i.rs.as_mut() {
                k[31] ^= 0x80;
                "top bit of the initiator's copy of the responder static"
            } else if let Some(k) = spec_r.rs.as_mut() {
                k[31] ^= 0x80;
                "top bit of the responder's copy of the initiator static"
            } else {
                return false;
            }
        },
        5 => {
            // both are built with the same psk; one side then replaces it through set_psk (after build)
            if psk.is_empty() {
                return false;
            }
            "psk replaced by set_psk on one side"
        },
        9 => {
            // two different name strings that select the same pattern and primitives: the spelling `psk01` for
            // `psk1`, or NoiseParams.name set to different free-form strings
            if !cfg.psks.is_empty() && r.chance(1, 2) {
                let alt: Vec<String> = cfg.psks.iter().enumerate().map(|(j, n)| if j == 0 { format!("psk0{n}") } else { format!("psk{n}") }).collect();
                spec_r.name = format!("Noise_{}{}_{}_{}_{}", cfg.pattern, alt.join("+"), cfg.dh, cfg.cipher, cfg.hash);
                "spelling of the psk modifier in the protocol name (psk0N)"
            } else {
                let base = if r.chance(1, 2) { "AcmeLink/1".to_string() } else { format!("AcmeLink/1_{name}_padding-to-exceed-the-length-of-a-64-byte-hash-value") };
                let mut other = base.clone().into_bytes();
                let j = r.below(other.len());
                other[j] = if other[j] == b'2' { b'3' } else { b'2' };
                spec_i.alias = Some(base);
                spec_r.alias = Some(String::from_utf8(other).unwrap());
                "free-form NoiseParams.name"
            }
        },
        7 | 8 => {
            // prologues of a structurally interesting length that differ in one byte (first / middle / last), or one
            // is the other cut short by a few bytes at the end
            let lens: &[usize] = if kind == 7 { &[1, 31, 32, 55, 56, 63, 64, 65, 119, 127, 128, 129, 1000] } else { &[65535, 65536, 65635, 131_070, 131_077] };
            let n = lens[r.below(lens.len())];
            let base = r.bytes(n);
            let mut other = base.clone();
            match r.below(4) {
                0 => other[0] ^= 1 << r.below(8),
                1 => other[n / 2] ^= 1 << r.below(8),
                2 => other[n - 1] ^= 1 << r.below(8),
                _ => { let cut = 1 + r.below(n.min(40)); other.truncate(n - cut); },
            }
            if r.chance(1, 2) {
                spec_i.prologue = Some(base);
                spec_r.prologue = Some(other);
            } else {
                spec_i.prologue = Some(other);
                spec_r.prologue = Some(base);
            }
            if kind == 7 { "prologue of boundary length, one byte / the tail" } else { "long prologue (> 65535 bytes), one byte / the tail" }
        },
        _ => {
            // same pattern, different hash of equal digest length (a different protocol name)
            let other = match cfg.hash.as_str() {
                "SHA256" => "BLAKE2s",
                "BLAKE2s" => "SHA256",
                "SHA512" => "BLAKE2b",
                _ => "SHA512",
            };
            spec_r.name = format!("Noise_{}{}_{}_{}_{}", cfg.pattern, mods_suffix(&cfg.psks), cfg.dh, cfg.cipher, other);
            "hash in the protocol name"
        },
    };
    sc.ex.comment(&format!("mismatch {name}: {what}"));
    if !sc.ex.build(1, &spec_i).is_ok() || !sc.ex.build(2, &spec_r).is_ok() {
        return true;
    }
    if kind == 5 {
        let j = slot.unwrap_or_else(|| r.below(psk.len()));
        let mut k2 = psk[j].1.clone();
        let b = r.below(32);
        k2[b] ^= 1 << r.below(8);
        let side = if r.chance(1, 2) { 1 } else { 2 };
        let o = sc.ex.set_psk(side, psk[j].0 as usize, &k2);
        sc.check_panic(&o, "set_psk");
        if !o.is_ok() {
            sc.viol("C12", format!("{name}: set_psk on a filled slot failed: {o:?}"));
        }
    }
    let mut failed = false;
    // in a third of the scenarios every call is first attempted in a way that fails (a write into a buffer that is a
    // few bytes short, a read into a payload buffer that is one byte short) and then retried: a failed call must not
    // change what the parties disagree on (seed C08-I: psks zeroed once mixed, so that two retries "agree");
    // in a fifth the payloads are empty and read into an empty buffer (seed C08-J: no cipher call for an empty output)
    let with_retries = r.chance(1, 3);
    let empty = r.chance(1, 5);
    // in a third: both parties look at the raw split before the first message and after every message (it must not
    // un-bind anything: seed C08-K blanked the symmetric state in `dangerously_get_raw_split`)
    let peek = r.chance(1, 3);
    if peek {
        let _ = sc.ex.raw_split(1);
        let _ = sc.ex.raw_split(2);
    }
    for k in 0..inst.msgs.len() {
        if peek && k > 0 {
            let _ = sc.ex.raw_split(1);
            let _ = sc.ex.raw_split(2);
        }
        let (w, rd) = if k % 2 == 0 { (1, 2) } else { (2, 1) };
        let p = if empty { vec![] } else { r.bytes(8) };
        if with_retries {
            let short = [1usize, 3, 17, 40][r.below(4)];
            let o = sc.ex.hs_write(w, &p, short);
            sc.check_panic(&o, "hs_write (short buffer)");
            sc.count("mismatch.failing_attempt");
        }
        let o = sc.ex.hs_write(w, &p, 400);
        sc.check_panic(&o, "hs_write");
        let Some(m) = o.bytes().map(<[u8]>::to_vec) else {
            failed = true;
            break;
        };
        if with_retries && !p.is_empty() {
            let o = sc.ex.hs_read(rd, &m, p.len() - 1);
            sc.check_panic(&o, "hs_read (short payload buffer)");
        }
        // payload buffers: generous, exactly the payload's size, and with 1..15 spare bytes (a backend that needs
        // room for the tag takes another path then)
        let rcap = if empty { [0usize, 0, 1, 400][r.below(4)] } else { [400usize, 8, 9, 23, 24, 400][r.below(6)] };
        let o = sc.ex.hs_read(rd, &m, rcap);
        sc.check_panic(&o, "hs_read");
        if !o.is_ok() {
            failed = true;
            break;
        }
    }
    if !failed {
        sc.viol("C08", format!("{name}: handshake completed on both sides despite a mismatch in {what}"));
        // and transport must not work either
        if sc.ex.convert(1, false).is_ok() && sc.ex.convert(2, false).is_ok() {
            if let Some(m) = sc.ex.t_write(1, b"hello", 64).bytes().map(<[u8]>::to_vec) {
                if sc.ex.t_read(2, &m, 64).is_ok() {
                    sc.viol("C08", format!("{name}: transport message accepted despite a mismatch in {what}"));
                }
            }
        }
    }
    if failed {
        // a refused message must not leave a usable channel behind either: conversions are attempted on both sides
        // (the writer of a refused final message is legitimately finished, its reader is not), and if both succeed no
        // transport message may be accepted in either direction (seed C08-N: Split() before the final payload check)
        let stateless = r.chance(1, 2);
        let (c1, c2) = (sc.ex.convert(1, stateless), sc.ex.convert(2, stateless));
        sc.check_panic(&c1, "conversion after a refused handshake message");
        sc.check_panic(&c2, "conversion after a refused handshake message");
        sc.count("mismatch.conversion_attempt");
        if c1.is_ok() && c2.is_ok() {
            for (w, rd) in [(1u32, 2u32), (2, 1)] {
                let (mo, ro);
                if stateless {
                    mo = sc.ex.st_write(w, 0, b"hello", 64);
                    ro = mo.bytes().map(<[u8]>::to_vec).map(|m| sc.ex.st_read(rd, 0, &m, 64));
                } else {
                    mo = sc.ex.t_write(w, b"hello", 64);
                    ro = mo.bytes().map(<[u8]>::to_vec).map(|m| sc.ex.t_read(rd, &m, 64));
                }
                if ro.map_or(false, |o| o.is_ok()) {
                    sc.viol("C08", format!("{name}: a handshake message was refused (mismatch in {what}), yet both parties converted and a transport message was accepted"));
                }
            }
        }
    }
    sc.count(if failed { "mismatch.detected" } else { "mismatch.undetected" });
    true
}

fn gen_transport(run: &mut Run, prop: &str, seed: u64, thorough: bool) {
    let mut r = Rng64(seed ^ 0x7470);
    let names = [
        "Noise_NN_25519_ChaChaPoly_SHA256",
        "Noise_NN_25519_AESGCM_SHA512",
        "Noise_NNpsk0_25519_XChaChaPoly_BLAKE2s",
        "Noise_N_25519_ChaChaPoly_BLAKE2b",
        "Noise_X_P256_AESGCM_SHA256",
        "Noise_KK_P256_ChaChaPoly_SHA256",
        "Noise_IK_25519_AESGCM_BLAKE2s",
        "Noise_XX_448_ChaChaPoly_SHA512",
        // one-way patterns WITH modifiers: still one-way
        "Noise_Xpsk1_25519_ChaChaPoly_SHA256",
    ];
    let mut names: Vec<&str> = names.to_vec();
    if prop == "C11" {
        names.extend(["Noise_Npsk0_25519_AESGCM_SHA256", "Noise_Kpsk0_25519_ChaChaPoly_BLAKE2s", "Noise_Npsk0+psk1_25519_ChaChaPoly_SHA512"]);
    }
    let reps = if thorough { 12 } else { 2 };
    for rep in 0..reps {
        for (i, n) in names.iter().enumerate() {
            for res in ["toy", "default", "ring"] {
                if res != "toy" && n.contains("_448_") {
                    continue;
                }
                let res_s = if res == "ring" { "fb(ring,default)" } else { res };
                let cfg = TransportCfg { name: (*n).into(), res_i: res_s.into(), res_r: if res == "ring" && rep % 2 == 0 { "default".into() } else { res_s.into() }, seed: r.next(), steps: if thorough { 120 } else { 60 } };
                if matches!(prop, "C16" | "C01" | "C02" | "C04" | "C05" | "C09" | "C15" | "C14" | "C19" | "C10" | "C11" | "C07" | "C06" | "C20" | "C17") {
                    let mut sc = Sc::new();
                    run_transport(&cfg, &mut sc);
                    run.add("transport", format!("{prop} transport {n} {res} #{rep}"), sc);
                }
                if matches!(prop, "C01" | "C02" | "C04" | "C05" | "C09" | "C11" | "C16" | "C15" | "C10" | "C19" | "C14" | "C06" | "C07" | "C17" | "C20") {
                    let mut sc = Sc::new();
                    run_stateless(&cfg, &mut sc);
                    run.add("stateless", format!("{prop} stateless {n} {res} #{rep}"), sc);
                }
                let _ = i;
            }
        }
    }
}


/// Failure-and-retry scenarios for the properties about *honest* behaviour (C01, C02): on every pattern, with the toy
/// suite and fixed ephemerals, one failing call per message (writer: buffer too small inside the last fixed field,
/// reader: payload buffer too small), then the genuine call. The bytes must equal those of
/// the fault-free twin (so also the specification's, which the twin is compared with through the model).
fn gen_hs_retry_light(run: &mut Run, prop: &str, seed: u64, thorough: bool) {
    let pats = pattern_names();
    let mut r = Rng64(seed ^ 0x7265747279);
    for (pi, p) in pats.iter().enumerate() {
        let nm = inst_of(p, &[]).map_or(1, |x| x.msgs.len());
        let pskn = ((seed as usize + pi) % (nm + 1)) as u8;
        for psks in [vec![], vec![pskn]] {
            if !thorough && !psks.is_empty() && (pi + seed as usize) % 3 != 0 {
                continue;
            }
            let mut cfg = base_cfg(p, pi, r.next(), false);
            cfg.psks = psks;
            cfg.fixed_e = true;
            let Some(inst) = inst_of(p, &cfg.psks) else { continue };
            let lay = layout(&inst, !cfg.psks.is_empty());
            for k in 0..nm {
                let nf = lay[k].len();
                cfg.faults.push((k, Fault::WriteCapInField(nf.saturating_sub(1))));
                // (an altered cleartext payload would be accepted and is C03's subject, not a retry)
                cfg.payload_lens[k] = cfg.payload_lens[k].max(1);
                cfg.faults.push((k, Fault::ReadCapShort(1)));
            }
            let mut sc = Sc::new();
            let tr = run_hs(&cfg, &mut sc);
            let mut twin = cfg.clone();
            twin.faults.clear();
            let mut sc2 = Sc::new();
            let tr2 = run_hs(&twin, &mut sc2);
            if tr.finished != tr2.finished || tr.msgs != tr2.msgs || tr.hh != tr2.hh || tr.transport != tr2.transport {
                sc.viol(prop, format!("{}: after failed calls and retries the messages differ from those of the run without failures (finished {} / {}, messages equal {}, hash equal {}, transport equal {})", cfg.name(), tr.finished, tr2.finished, tr.msgs == tr2.msgs, tr.hh == tr2.hh, tr.transport == tr2.transport));
                sc.viol("C07", format!("{}: bytes after failed calls differ from the fault-free twin", cfg.name()));
            }
            run.add("hs", format!("{prop} retry {}", cfg.name()), sc);
        }
    }
}


/// C06, hostile peer: the remote ephemeral is a low-order X25519 point, so `DH(e, re)` is the same (all-zero) value
/// for every fresh local ephemeral. A write that fails after the `s` field was encrypted, followed by the retry (fresh
/// ephemeral, as the property demands), then derives the same key again and encrypts `s` under (key, nonce 0) with a
/// different handshake hash as associated data. Recorded as known finding KF3.
fn gen_low_order(run: &mut Run, seed: u64) {
    let mut r = Rng64(seed ^ 0x6c6f77);
    let points: [[u8; 32]; 2] = [[0u8; 32], {
        let mut p = [0u8; 32];
        p[0] = 1;
        p
    }];
    for name in ["Noise_XX_25519_ChaChaPoly_SHA256", "Noise_NX_25519_AESGCM_BLAKE2s"] {
        for re in &points {
            let mut sc = Sc::new();
            sc.ex.comment(&format!("low-order remote ephemeral {name}"));
            let spec = BuildSpec { alias: None, mods: None,
                name: name.into(),
                initiator: false,
                resolver: "default".into(),
                s: Some(r.bytes(32)),
                e: None,
                rs: None,
                psks: vec![],
                prologue: None,
                rng: r.bytes(128),
            };
            if !sc.ex.build(2, &spec).is_ok() {
                continue;
            }
            let o = sc.ex.hs_read(2, re, 64);
            sc.check_panic(&o, "hs_read low-order e");
            if !o.is_ok() {
                continue;
            }
            let mut seen: std::collections::BTreeMap<(Vec<u8>, u64), (Vec<u8>, Vec<u8>)> = std::collections::BTreeMap::new();
            let mut reuse = false;
            // message 2 = e (32) + s (48) + payload (4 + 16): a 90-byte buffer holds `e` and `s` but not the payload
            for cap in [90usize, 300] {
                let o = sc.ex.hs_write(2, b"abcd", cap);
                sc.check_panic(&o, "hs_write");
                for e in &sc.ex.last_events.clone() {
                    if let crate::toy::Ev::Enc { key, n, ad, pt } = e {
                        match seen.get(&(key.clone(), *n)) {
                            Some((a0, p0)) if a0 != ad || p0 != pt => reuse = true,
                            Some(_) => {},
                            None => {
                                seen.insert((key.clone(), *n), (ad.clone(), pt.clone()));
                            },
                        }
                    }
                }
            }
            sc.count("c06.low_order_remote_ephemeral");
            if reuse {
                sc.viol("C06", format!("{name}: (key, nonce) pair reused on different associated data after a failed write when the peer's ephemeral is a low-order X25519 point (the DH output does not depend on the fresh local ephemeral)"));
            }
            run.add("hs", format!("C06 low-order remote ephemeral {name}"), sc);
        }
    }
}

/// C16: many threads share one stateless session.
fn gen_threads(run: &mut Run, seed: u64, thorough: bool) {
    use std::sync::Arc;
    let mut sc = Sc::new();
    sc.ex.comment("threads: 8 threads share one StatelessTransportState (implementation only)");
    for res in ["default", "fb(ring,default)"] {
        let res = &adapt_res(res);
        let mk = |initiator: bool| {
            let params: snow::params::NoiseParams = "Noise_NN_25519_ChaChaPoly_SHA256".parse().unwrap();
            let ek = [if initiator { 7u8 } else { 9u8 }; 32];
            let b = snow::Builder::with_resolver(params, toy::resolver_from_expr(res).unwrap()).fixed_ephemeral_key_for_testing_only(&ek);
            if initiator { b.build_initiator().unwrap() } else { b.build_responder().unwrap() }
        };
        let (mut i, mut rr) = (mk(true), mk(false));
        let mut buf = [0u8; 200];
        let mut buf2 = [0u8; 200];
        let n = i.write_message(&[], &mut buf).unwrap();
        rr.read_message(&buf[..n], &mut buf2).unwrap();
        let n = rr.write_message(&[], &mut buf).unwrap();
        i.read_message(&buf[..n], &mut buf2).unwrap();
        let i = Arc::new(i.into_stateless_transport_mode().unwrap());
        let rr = Arc::new(rr.into_stateless_transport_mode().unwrap());
        let iters = if thorough { 20000 } else { 2000 };
        // reference results computed single-threaded
        let reference: Vec<Vec<u8>> = (0..64u64)
            .map(|n| {
                let mut out = vec![0u8; 48];
                let l = i.write_message(n, &[n as u8; 32], &mut out).unwrap();
                out.truncate(l);
                out
            })
            .collect();
        let reference = Arc::new(reference);
        let bad = Arc::new(std::sync::atomic::AtomicUsize::new(0));
        let mut hs = vec![];
        for t in 0..8u64 {
            let (i, rr, reference, bad) = (i.clone(), rr.clone(), reference.clone(), bad.clone());
            let mut r = Rng64(seed ^ t);
            hs.push(std::thread::spawn(move || {
                for _ in 0..iters {
                    let n = r.below(64) as u64;
                    let mut out = vec![0u8; 48];
                    let l = i.write_message(n, &[n as u8; 32], &mut out).unwrap_or(0);
                    if out[..l] != reference[n as usize][..] {
                        bad.fetch_add(1, std::sync::atomic::Ordering::Relaxed);
                    }
                    let mut p = vec![0u8; 32];
                    match rr.read_message(n, &reference[n as usize], &mut p) {
                        Ok(32) if p == [n as u8; 32] => {},
                        _ => {
                            bad.fetch_add(1, std::sync::atomic::Ordering::Relaxed);
                        },
                    }
                }
            }));
        }
        for h in hs {
            if h.join().is_err() {
                sc.viol("C10", "panic in a stateless transport thread".into());
            }
        }
        let b = bad.load(std::sync::atomic::Ordering::Relaxed);
        *sc.stats.entry("threads.ops".into()).or_insert(0) += 8 * 2 * iters as u64;
        if b != 0 {
            sc.viol("C16", format!("{b} concurrent stateless operations gave results different from the single-threaded ones ({res})"));
        }
    }
    run.add("threads", "stateless threads".into(), sc);
}

/// A cipher of a custom resolver that overrides `Cipher::rekey` (Noise 4.2 lets a cipher define its own REKEY): the
/// wrapped default cipher with `REKEY(k) = ENCRYPT(k, 2^64-1, "", 0x11^32)[..32]`.
struct OwnRekeyCipher {
    inner: Box<dyn snow::types::Cipher>,
    key: [u8; 32],
}
impl snow::types::Cipher for OwnRekeyCipher {
    fn name(&self) -> &'static str {
        self.inner.name()
    }
    fn set(&mut self, key: &[u8; 32]) {
        self.key = *key;
        self.inner.set(key);
    }
    fn encrypt(&self, nonce: u64, authtext: &[u8], plaintext: &[u8], out: &mut [u8]) -> usize {
        self.inner.encrypt(nonce, authtext, plaintext, out)
    }
    fn decrypt(&self, nonce: u64, authtext: &[u8], ciphertext: &[u8], out: &mut [u8]) -> Result<usize, snow::Error> {
        self.inner.decrypt(nonce, authtext, ciphertext, out)
    }
    fn rekey(&mut self) {
        let mut out = [0u8; 48];
        self.inner.encrypt(u64::MAX, &[], &[0x11u8; 32], &mut out);
        self.key.copy_from_slice(&out[..32]);
        let k = self.key;
        self.inner.set(&k);
    }
}
struct OwnRekeyResolver;
impl snow::resolvers::CryptoResolver for OwnRekeyResolver {
    fn resolve_rng(&self) -> Option<Box<dyn snow::types::Random>> {
        snow::resolvers::DefaultResolver.resolve_rng()
    }
    fn resolve_dh(&self, c: &snow::params::DHChoice) -> Option<Box<dyn snow::types::Dh>> {
        snow::resolvers::DefaultResolver.resolve_dh(c)
    }
    fn resolve_hash(&self, c: &snow::params::HashChoice) -> Option<Box<dyn snow::types::Hash>> {
        snow::resolvers::DefaultResolver.resolve_hash(c)
    }
    fn resolve_cipher(&self, c: &snow::params::CipherChoice) -> Option<Box<dyn snow::types::Cipher>> {
        Some(Box::new(OwnRekeyCipher { inner: snow::resolvers::DefaultResolver.resolve_cipher(c)?, key: [0; 32] }))
    }
}

/// C16 / C15 (implementation only: the model's REKEY is the specification's default): with a cipher that brings its
/// own `rekey`, the stateless message under nonce n equals the n-th stateful message also AFTER rekeys, the two modes
/// interoperate, and the key after a rekey is the cipher's own REKEY of the old one.
fn gen_own_rekey(run: &mut Run, seed: u64) {
    let mut sc = Sc::new();
    sc.ex.comment("a custom cipher with its own rekey: stateless = stateful after rekeys (implementation only)");
    let mut r = Rng64(seed ^ 0x6f776e726b);
    for name in ["Noise_NN_25519_ChaChaPoly_SHA256", "Noise_NN_25519_AESGCM_BLAKE2s"] {
        let mk = |initiator: bool| {
            let params: snow::params::NoiseParams = name.parse().unwrap();
            let ek = [if initiator { 5u8 } else { 6u8 }; 32];
            let b = snow::Builder::with_resolver(params, Box::new(OwnRekeyResolver)).fixed_ephemeral_key_for_testing_only(&ek);
            if initiator { b.build_initiator().unwrap() } else { b.build_responder().unwrap() }
        };
        let pair = || {
            let (mut i, mut rr) = (mk(true), mk(false));
            let mut buf = [0u8; 200];
            let mut buf2 = [0u8; 200];
            let n = i.write_message(&[], &mut buf).unwrap();
            rr.read_message(&buf[..n], &mut buf2).unwrap();
            let n = rr.write_message(&[], &mut buf).unwrap();
            i.read_message(&buf[..n], &mut buf2).unwrap();
            (i, rr)
        };
        let r0 = std::panic::catch_unwind(std::panic::AssertUnwindSafe(|| {
            let (i1, r1) = pair();
            let (i2, r2) = pair();
            let (mut ti, mut tr) = (i1.into_transport_mode().unwrap(), r1.into_transport_mode().unwrap());
            let (mut si, mut sr) = (i2.into_stateless_transport_mode().unwrap(), r2.into_stateless_transport_mode().unwrap());
            let mut problems: Vec<String> = vec![];
            let mut n_i = 0u64;
            for step in 0..12 {
                if step % 3 == 1 {
                    // synchronised rekey of the initiator-to-responder direction, in both modes
                    ti.rekey_outgoing();
                    tr.rekey_incoming();
                    si.rekey_outgoing();
                    sr.rekey_incoming();
                }
                let p = vec![step as u8; 5 + step];
                let (mut m1, mut m2) = (vec![0u8; 100], vec![0u8; 100]);
                let l1 = ti.write_message(&p, &mut m1).unwrap_or(0);
                let l2 = si.write_message(n_i, &p, &mut m2).unwrap_or(0);
                if l1 == 0 || m1[..l1] != m2[..l2] {
                    problems.push(format!("message {n_i} after {} rekeys: the stateless message differs from the stateful sender's", (step + 2) / 3));
                }
                let mut out = vec![0u8; 100];
                // cross-mode delivery: stateful sender to stateless receiver and the other way round
                if sr.read_message(n_i, &m1[..l1], &mut out).ok() != Some(p.len()) {
                    problems.push(format!("message {n_i}: a stateless receiver rejects the stateful sender's message after rekeys"));
                }
                if tr.read_message(&m2[..l2], &mut out).ok() != Some(p.len()) {
                    problems.push(format!("message {n_i}: a stateful receiver rejects the stateless sender's message after rekeys"));
                }
                n_i += 1;
            }
            problems
        }));
        match r0 {
            Ok(problems) => {
                for p in problems.iter().take(3) {
                    sc.viol("C16", format!("{name} with a cipher that overrides Cipher::rekey: {p}"));
                    sc.viol("C15", format!("{name} with a cipher that overrides Cipher::rekey: {p}"));
                }
            },
            Err(_) => sc.viol("C10", format!("{name}: panic with a cipher that overrides Cipher::rekey")),
        }
        sc.count("ownrekey.sessions");
        let _ = r.next();
    }
    run.add("ownrekey", "custom cipher with its own rekey".into(), sc);
}

/// A hostile peer whose DH contributes nothing: its public keys are all-zero and every DH it computes is all-zero
/// (what X25519 yields for a low-order point). snow accepts such keys (the Noise specification leaves rejecting them
/// optional), so the victim derives the same all-zero secrets and the hostile peer's messages authenticate.
struct ZeroDh {
    privkey: [u8; 32],
    pubkey: [u8; 32],
}
impl snow::types::Dh for ZeroDh {
    fn name(&self) -> &'static str {
        "25519"
    }
    fn pub_len(&self) -> usize {
        32
    }
    fn priv_len(&self) -> usize {
        32
    }
    fn set(&mut self, privkey: &[u8]) {
        self.privkey[..privkey.len().min(32)].copy_from_slice(&privkey[..privkey.len().min(32)]);
    }
    fn generate(&mut self, rng: &mut dyn snow::types::Random) {
        rng.fill_bytes(&mut self.privkey);
    }
    fn pubkey(&self) -> &[u8] {
        &self.pubkey
    }
    fn privkey(&self) -> &[u8] {
        &self.privkey
    }
    fn dh(&self, _pubkey: &[u8], out: &mut [u8]) -> Result<(), snow::Error> {
        out[..32].fill(0);
        Ok(())
    }
}
struct ZeroDhResolver;
impl snow::resolvers::CryptoResolver for ZeroDhResolver {
    fn resolve_rng(&self) -> Option<Box<dyn snow::types::Random>> {
        snow::resolvers::DefaultResolver.resolve_rng()
    }
    fn resolve_dh(&self, _c: &snow::params::DHChoice) -> Option<Box<dyn snow::types::Dh>> {
        Some(Box::new(ZeroDh { privkey: [0; 32], pubkey: [0; 32] }))
    }
    fn resolve_hash(&self, c: &snow::params::HashChoice) -> Option<Box<dyn snow::types::Hash>> {
        snow::resolvers::DefaultResolver.resolve_hash(c)
    }
    fn resolve_cipher(&self, c: &snow::params::CipherChoice) -> Option<Box<dyn snow::types::Cipher>> {
        snow::resolvers::DefaultResolver.resolve_cipher(c)
    }
}

/// Message 1 of `Noise_NK_25519_ChaChaPoly_SHA256` written by hand (the specification's steps on the default
/// resolver's hash and cipher objects) by a peer whose ephemeral public key is all-zero, so that `es` is all-zero
/// whatever the responder's static key is: the message authenticates at an honest responder.
fn handmade_nk_msg1(rs_pub: &[u8], payload: &[u8]) -> Option<Vec<u8>> {
    use snow::resolvers::CryptoResolver;
    let res = snow::resolvers::DefaultResolver;
    let mut hash = res.resolve_hash(&snow::params::HashChoice::SHA256)?;
    let mut cipher = res.resolve_cipher(&snow::params::CipherChoice::ChaChaPoly)?;
    let name = b"Noise_NK_25519_ChaChaPoly_SHA256";
    let mut h = [0u8; 32];
    h.copy_from_slice(name); // exactly 32 bytes: used as is
    let ck0 = h;
    let mut mix = |h: &mut [u8; 32], data: &[u8]| {
        let mut out = [0u8; 64];
        hash.reset();
        hash.input(&h[..]);
        hash.input(data);
        hash.result(&mut out);
        h.copy_from_slice(&out[..32]);
    };
    mix(&mut h, &[]); // prologue
    mix(&mut h, rs_pub); // pre-message: <- s
    let e_pub = [0u8; 32];
    mix(&mut h, &e_pub); // token e
    let (mut o1, mut o2, mut o3) = ([0u8; 64], [0u8; 64], [0u8; 64]);
    let mut hash2 = res.resolve_hash(&snow::params::HashChoice::SHA256)?;
    hash2.hkdf(&ck0, &[0u8; 32], 2, &mut o1, &mut o2, &mut o3); // token es: DH output all-zero
    let mut k = [0u8; 32];
    k.copy_from_slice(&o2[..32]);
    cipher.set(&k);
    let mut c = vec![0u8; payload.len() + 16];
    let n = cipher.encrypt(0, &h, payload, &mut c);
    let mut msg = e_pub.to_vec();
    msg.extend_from_slice(&c[..n]);
    Some(msg)
}

/// C19 (implementation only): messages of a peer with non-contributory DH keys. Whatever the victim's read returns,
/// an `Err` must not leave the decrypted payload in the caller's buffer (seed C19-K: a verdict given after the payload
/// was decrypted), and nothing may panic.
fn gen_noncontributory(run: &mut Run, seed: u64) {
    let mut sc = Sc::new();
    sc.ex.comment("a peer with all-zero DH keys (implementation only)");
    let mut r = Rng64(seed ^ 0x7a64);
    for (name, hostile_initiator) in [
        ("Noise_NK_25519_ChaChaPoly_SHA256", true),
        ("Noise_NN_25519_AESGCM_BLAKE2s", false),
        ("Noise_NN_25519_ChaChaPoly_SHA512", true),
        ("Noise_XX_25519_ChaChaPoly_BLAKE2b", false),
    ] {
        let payload = r.bytes(40);
        let res = std::panic::catch_unwind(std::panic::AssertUnwindSafe(|| -> Option<String> {
            let params: snow::params::NoiseParams = name.parse().unwrap();
            let vs = [7u8; 32];
            let mut hb = snow::Builder::with_resolver(params.clone(), Box::new(ZeroDhResolver));
            let mut vb = snow::Builder::new(params.clone());
            let zero_pub = [0u8; 32];
            let hs_static = [9u8; 32];
            if name.contains("_NK_") {
                // the victim is the responder with a static key; the hostile initiator "knows" it (any value: its DH ignores it)
                vb = vb.local_private_key(&vs).unwrap();
                hb = hb.remote_public_key(&zero_pub).unwrap();
            }
            if name.contains("_XX_") {
                vb = vb.local_private_key(&vs).unwrap();
                hb = hb.local_private_key(&hs_static).unwrap();
            }
            let (mut hostile, mut victim) = if hostile_initiator { (hb.build_initiator().ok()?, vb.build_responder().ok()?) } else { (hb.build_responder().ok()?, vb.build_initiator().ok()?) };
            let (mut a, mut b) = (vec![0u8; 300], vec![0xA5u8; 300]);
            if !hostile_initiator {
                // the victim speaks first
                let l = victim.write_message(&[], &mut a).ok()?;
                hostile.read_message(&a[..l], &mut b).ok()?;
                b.fill(0xA5);
            }
            let l = hostile.write_message(&payload, &mut a).ok()?;
            match victim.read_message(&a[..l], &mut b) {
                Ok(_) => None,
                Err(e) => {
                    if b.windows(payload.len()).any(|w| w == payload.as_slice()) {
                        Some(format!("{name}: a message of a peer with all-zero DH keys was refused with {e:?} but the decrypted payload is in the caller's buffer"))
                    } else {
                        None
                    }
                },
            }
        }));
        match res {
            Ok(Some(w)) => sc.viol("C19", w),
            Ok(None) => {},
            Err(_) => sc.viol("C10", format!("{name}: panic while reading a message of a peer with all-zero DH keys")),
        }
        sc.count("noncontributory.sessions");
    }
    // the same against a hand-written message (the peer above runs snow's own code, which may refuse to write)
    {
        let payload = r.bytes(48);
        let res = std::panic::catch_unwind(std::panic::AssertUnwindSafe(|| -> Option<String> {
            let params: snow::params::NoiseParams = "Noise_NK_25519_ChaChaPoly_SHA256".parse().unwrap();
            let vs = [7u8; 32];
            let kp_pub = crate::gen::pub_of("default", "25519", &vs)?;
            let mut victim = snow::Builder::new(params).local_private_key(&vs).ok()?.build_responder().ok()?;
            let msg = handmade_nk_msg1(&kp_pub, &payload)?;
            let mut b = vec![0xA5u8; 200];
            match victim.read_message(&msg, &mut b) {
                Ok(n) => {
                    if b[..n] != payload[..] {
                        Some("hand-written NK message 1 accepted with another payload".into())
                    } else {
                        Some("ACCEPTED".into())
                    }
                },
                Err(e) => {
                    if b.windows(payload.len()).any(|w| w == payload.as_slice()) {
                        Some(format!("Noise_NK: a hand-written message 1 with an all-zero ephemeral was refused with {e:?} but the decrypted payload is in the caller's buffer"))
                    } else {
                        None
                    }
                },
            }
        }));
        match res {
            Ok(Some(w)) if w == "ACCEPTED" => sc.count("noncontributory.handmade_accepted"),
            Ok(Some(w)) => sc.viol("C19", w),
            Ok(None) => {},
            Err(_) => sc.viol("C10", "panic while reading a hand-written NK message with an all-zero ephemeral".into()),
        }
        sc.count("noncontributory.handmade");
    }
    run.add("noncontrib", "peer with all-zero DH keys".into(), sc);
}

/// C04 / C06 (implementation only: OS randomness): many sessions made one after the other on one thread with snow's own
/// default resolver and its own random source. Every ephemeral is fresh (no two sessions put the same `e` on the wire),
/// and a transport message of one session is rejected by every other session.
fn gen_many_sessions(run: &mut Run, thorough: bool) {
    let mut sc = Sc::new();
    sc.ex.comment("many sessions with the default resolver's own randomness (implementation only)");
    let n = if thorough { 80 } else { 40 };
    for res in ["new", "fb(ring,default)"] {
    if res != "new" && !FULL {
        continue;
    }
    let r0 = std::panic::catch_unwind(std::panic::AssertUnwindSafe(|| {
        let mut firsts: Vec<Vec<u8>> = vec![];
        let mut sessions = vec![];
        for _ in 0..n {
            let params: snow::params::NoiseParams = "Noise_NN_25519_ChaChaPoly_SHA256".parse().unwrap();
            let mkb = |p: snow::params::NoiseParams| if res == "new" { snow::Builder::new(p) } else { snow::Builder::with_resolver(p, toy::resolver_from_expr(res).unwrap()) };
            let mut i = mkb(params.clone()).build_initiator().unwrap();
            let mut rr = mkb(params).build_responder().unwrap();
            let (mut a, mut b) = ([0u8; 200], [0u8; 200]);
            let l = i.write_message(&[], &mut a).unwrap();
            firsts.push(a[..32].to_vec());
            rr.read_message(&a[..l], &mut b).unwrap();
            let l = rr.write_message(&[], &mut a).unwrap();
            firsts.push(a[..32].to_vec());
            i.read_message(&a[..l], &mut b).unwrap();
            sessions.push((i.into_transport_mode().unwrap(), rr.into_transport_mode().unwrap()));
        }
        let mut problems = vec![];
        for x in 0..firsts.len() {
            if firsts[..x].contains(&firsts[x]) {
                problems.push(("C06", format!("ephemeral key number {x} put on the wire repeats an earlier one (default resolver's own random source)")));
                break;
            }
        }
        // one message of session 0 offered to every other session's responder
        let mut m = [0u8; 100];
        let l = sessions[0].0.write_message(b"from session zero", &mut m).unwrap();
        let mut out = [0u8; 100];
        for (k, (_, rr)) in sessions.iter_mut().enumerate().skip(1) {
            if rr.read_message(&m[..l], &mut out).is_ok() {
                problems.push(("C04", format!("a transport message of session 0 was accepted by the responder of session {k}")));
                break;
            }
        }
        problems
    }));
    match r0 {
        Ok(ps) => {
            for (p, w) in ps {
                sc.viol(p, format!("{w} [resolver {res}]"));
            }
        },
        Err(_) => sc.viol("C10", format!("panic while running many sessions (resolver {res})")),
    }
    }
    *sc.stats.entry("many_sessions".into()).or_insert(0) += n as u64;
    run.add("manysessions", "many default-resolver sessions on one thread".into(), sc);
}

fn run_prop(prop: &str, thorough: bool, seed: u64) -> Run {
    let mut run = Run::default();
    match prop {
        "C01" => {
            gen_tokens(&mut run, seed, thorough);
            gen_hs(&mut run, prop, seed, thorough);
            gen_builder_new(&mut run, seed, thorough);
            gen_hs_retry_light(&mut run, prop, seed, thorough);
            gen_transport(&mut run, prop, seed, false);
            prim::gen_prim(&mut run, seed, thorough, true);
        },
        "C02" => {
            gen_hs(&mut run, prop, seed, thorough);
            gen_builder_new(&mut run, seed, thorough);
            gen_hs_retry_light(&mut run, prop, seed, thorough);
            gen_transport(&mut run, prop, seed, false);
        },
        "C03" => {
            gen_hs(&mut run, prop, seed, thorough);
            gen_tamper_continue(&mut run, seed, thorough);
        },
        "C04" => {
            gen_transport(&mut run, prop, seed, thorough);
            gen_many_sessions(&mut run, thorough);
        },
        "C05" | "C09" => gen_transport(&mut run, prop, seed, thorough),
        "C15" => {
            gen_transport(&mut run, prop, seed, thorough);
            gen_own_rekey(&mut run, seed);
        },
        "C06" | "C07" => {
            gen_hs(&mut run, prop, seed, thorough);
            gen_transport(&mut run, prop, seed, thorough);
            if prop == "C06" {
                gen_low_order(&mut run, seed);
                gen_many_sessions(&mut run, thorough);
            }
        },
        "C08" => {
            gen_mismatch(&mut run, seed, thorough);
            gen_handmods(&mut run, seed);
        },
        "C10" => {
            gen_parse(&mut run, seed, false);
            gen_build(&mut run, seed, false);
            gen_handmods(&mut run, seed);
            gen_api(&mut run, seed, thorough);
            gen_hs(&mut run, prop, seed, thorough);
            gen_transport(&mut run, prop, seed, thorough);
        },
        "C11" => {
            gen_hs(&mut run, prop, seed, thorough);
            gen_tamper_continue(&mut run, seed, thorough);
            gen_transport(&mut run, prop, seed, thorough);
        },
        "C12" => {
            gen_build(&mut run, seed, thorough);
            gen_handmods(&mut run, seed);
            gen_api(&mut run, seed, thorough);
            gen_tokens(&mut run, seed, thorough);
            gen_hs(&mut run, prop, seed, thorough);
            gen_builder_new(&mut run, seed, false);
        },
        "C13" => gen_parse(&mut run, seed, thorough),
        "C14" => {
            gen_hs(&mut run, prop, seed, thorough);
            gen_transport(&mut run, prop, seed, thorough);
        },
        "C16" => {
            gen_transport(&mut run, prop, seed, thorough);
            gen_threads(&mut run, seed, thorough);
            gen_own_rekey(&mut run, seed);
        },
        "C17" => {
            gen_hs(&mut run, prop, seed, thorough);
            gen_transport(&mut run, prop, seed, thorough);
        },
        "C18" => {
            prim::gen_prim(&mut run, seed, thorough, false);
            gen_api(&mut run, seed, thorough);
        },
        "C19" => {
            gen_noncontributory(&mut run, seed);
            gen_hs(&mut run, prop, seed, thorough);
            gen_transport(&mut run, prop, seed, thorough);
            prim::gen_prim(&mut run, seed, thorough, true);
        },
        "C20" => {
            gen_resolve(&mut run);
            gen_build(&mut run, seed, false);
            gen_hs(&mut run, prop, seed, thorough);
            gen_builder_new(&mut run, seed, false);
            gen_transport(&mut run, prop, seed, thorough);
            prim::gen_prim(&mut run, seed, thorough, true);
        },
        _ => {},
    }
    run
}

fn json_str(s: &str) -> String {
    let mut o = String::from("\"");
    for c in s.chars() {
        match c {
            '"' => o.push_str("\\\""),
            '\\' => o.push_str("\\\\"),
            '\n' => o.push_str("\\n"),
            c if (c as u32) < 0x20 => {
                let _ = write!(o, "\\u{:04x}", c as u32);
            },
            c => o.push(c),
        }
    }
    o.push('"');
    o
}

fn exec_script(text: &str) -> Vec<String> {
    let mut ex = Exec::new();
    for line in text.lines() {
        let line = line.trim_end();
        if line.is_empty() {
            continue;
        }
        if line.starts_with("# scenario") {
            ex.sessions.clear();
            ex.ops.push(line.into());
            ex.res.push(line.into());
            continue;
        }
        if line.starts_with('#') {
            ex.comment(&line[1..].trim_start());
            continue;
        }
        exec_line(&mut ex, line);
    }
    ex.res
}

fn parse_u<T: std::str::FromStr>(s: &str) -> T {
    s.parse().ok().unwrap_or_else(|| panic!("bad number {s}"))
}

fn kv<'a>(parts: &[&'a str], key: &str) -> &'a str {
    parts.iter().find_map(|p| p.strip_prefix(key).and_then(|x| x.strip_prefix('='))).unwrap_or("none")
}

fn opt_bytes(s: &str) -> Option<Vec<u8>> {
    if s == "none" { None } else { unhex(s) }
}

fn exec_line(ex: &mut Exec, line: &str) {
    let parts: Vec<&str> = line.split(' ').collect();
    let b = |s: &str| unhex(s).unwrap_or_default();
    match parts[0] {
        "parse" => {
            ex.parse(&b(parts[1]));
        },
        "tokens" => {
            let mods: Vec<snow::params::HandshakeModifier> = if parts[2] == "-" {
                vec![]
            } else {
                parts[2]
                    .split(',')
                    .map(|m| if m == "fallback" { snow::params::HandshakeModifier::Fallback } else { snow::params::HandshakeModifier::Psk(parse_u(&m[3..])) })
                    .collect()
            };
            ex.tokens(parse_u(parts[1]), &mods);
        },
        "build" => {
            let psks = kv(&parts, "psks");
            let spec = BuildSpec { alias: kv(&parts, "alias").strip_prefix('x').map(|h| String::from_utf8_lossy(&b(h)).into_owned()),
                mods: if parts.iter().any(|x| x.starts_with("mods=")) { Some(kv(&parts, "mods").to_string()) } else { None },
                name: String::from_utf8_lossy(&b(parts[3])).into_owned(),
                initiator: parts[2] == "i",
                resolver: kv(&parts, "res").into(),
                s: opt_bytes(kv(&parts, "s")),
                e: opt_bytes(kv(&parts, "e")),
                rs: opt_bytes(kv(&parts, "rs")),
                psks: if psks == "none" { vec![] } else { psks.split(',').map(|x| { let (i, k) = x.split_once(':').unwrap(); (parse_u(i), b(k)) }).collect() },
                prologue: opt_bytes(kv(&parts, "pro")),
                rng: b(kv(&parts, "rng")),
            };
            ex.build(parse_u(parts[1]), &spec);
        },
        "hs_write" => {
            ex.hs_write(parse_u(parts[1]), &b(parts[2]), parse_u(parts[3]));
        },
        "hs_read" => {
            ex.hs_read(parse_u(parts[1]), &b(parts[2]), parse_u(parts[3]));
        },
        "set_psk" => {
            ex.set_psk(parse_u(parts[1]), parse_u(parts[2]), &b(parts[3]));
        },
        "query" => {
            ex.query(parse_u(parts[1]));
        },
        "parse_part" => {
            ex.parse_part(parts[1], &b(parts[2]));
        },
        "to_transport" => {
            ex.convert_via(parse_u(parts[1]), false, false);
        },
        "to_stateless" => {
            ex.convert_via(parse_u(parts[1]), true, false);
        },
        "to_transport_tf" => {
            ex.convert_via(parse_u(parts[1]), false, true);
        },
        "to_stateless_tf" => {
            ex.convert_via(parse_u(parts[1]), true, true);
        },
        "t_write" => {
            ex.t_write(parse_u(parts[1]), &b(parts[2]), parse_u(parts[3]));
        },
        "t_read" => {
            ex.t_read(parse_u(parts[1]), &b(parts[2]), parse_u(parts[3]));
        },
        "st_write" => {
            ex.st_write(parse_u(parts[1]), parse_u(parts[2]), &b(parts[3]), parse_u(parts[4]));
        },
        "st_read" => {
            ex.st_read(parse_u(parts[1]), parse_u(parts[2]), &b(parts[3]), parse_u(parts[4]));
        },
        "rekey" => {
            ex.rekey(parse_u(parts[1]), parts[2]);
        },
        "rekey_manual" | "rekey_manual_d" => {
            let f = |s: &str| -> Option<[u8; 32]> { opt_bytes(s).and_then(|v| v.try_into().ok()) };
            let (a, c) = (f(parts[2]), f(parts[3]));
            ex.rekey_manual_via(parse_u(parts[1]), a.as_ref(), c.as_ref(), parts[0] == "rekey_manual_d");
        },
        "set_recv_nonce" => ex.set_recv_nonce(parse_u(parts[1]), parse_u(parts[2])),
        "set_send_nonce" => ex.set_send_nonce(parse_u(parts[1]), parse_u(parts[2])),
        "drop" => ex.drop_session(parse_u(parts[1])),
        "resolve" => {
            ex.resolve(parts[1], parts[2], parts[3]);
        },
        "raw_split" => {
            ex.raw_split(parse_u(parts[1]));
        },
        "resolve_on" => {
            ex.resolve_on(parts[1], parts[2], parts[3]);
        },
        "setters" => {
            ex.setters(parts.get(1).copied().unwrap_or("-"));
        },
        "genkey" => {
            let name = String::from_utf8_lossy(&b(parts[2])).to_string();
            let rng = parts.iter().find_map(|x| x.strip_prefix("rng=")).map(|h| b(h)).unwrap_or_default();
            ex.genkey(parts[1], &name, &rng);
        },
        "prim" => prim::exec_prim(ex, &parts),
        _ => {
            ex.ops.push(line.into());
            ex.res.push("badop".into());
        },
    }
}

fn main() {
    if std::env::var("SNOWH_PANICS").is_err() { std::panic::set_hook(Box::new(|_| {})); }
    let args: Vec<String> = std::env::args().collect();
    match args.get(1).map(String::as_str) {
        Some("dump") => print!("{}", dump()),
        Some("run") => {
            let prop = &args[2];
            let thorough = args[3] == "thorough";
            let seed: u64 = args[4].parse().unwrap();
            let outdir = &args[5];
            fs::create_dir_all(outdir).unwrap();
            let run = run_prop(prop, thorough, seed);
            let mut ops = String::new();
            let mut imp = String::new();
            let p256 = "Noise_NN_P256_AESGCM_SHA256".parse::<snow::params::NoiseParams>().is_ok();
            let xch = "Noise_NN_25519_XChaChaPoly_SHA256".parse::<snow::params::NoiseParams>().is_ok();
            let hdr = format!("features p256={} xchacha={}", u8::from(p256), u8::from(xch));
            let _ = writeln!(ops, "{hdr}");
            let _ = writeln!(imp, "{hdr}");
            for s in &run.scenarios {
                let h = format!("# scenario {} {} {}", s.id, s.component, s.title.replace('\n', " "));
                let _ = writeln!(ops, "{h}");
                let _ = writeln!(imp, "{h}");
                for (o, r) in s.ops.iter().zip(s.res.iter()) {
                    let _ = writeln!(ops, "{o}");
                    let _ = writeln!(imp, "{r}");
                }
            }
            fs::write(format!("{outdir}/ops.txt"), ops).unwrap();
            fs::write(format!("{outdir}/impl.txt"), imp).unwrap();
            let mut meta = String::from("{\n \"violations\": [");
            for (i, v) in run.viols.iter().enumerate() {
                let _ = write!(meta, "{}\n  {{\"prop\": {}, \"scenario\": {}, \"what\": {}}}", if i > 0 { "," } else { "" }, json_str(&v.prop), v.scenario, json_str(&v.what));
            }
            meta.push_str("\n ],\n \"stats\": {");
            for (i, (k, v)) in run.stats.iter().enumerate() {
                let _ = write!(meta, "{}\n  {}: {}", if i > 0 { "," } else { "" }, json_str(k), v);
            }
            meta.push_str("\n },\n \"samples\": [");
            for (i, s) in run.samples.iter().enumerate() {
                let _ = write!(meta, "{}\n  {}", if i > 0 { "," } else { "" }, json_str(s));
            }
            let _ = write!(meta, "\n ],\n \"scenarios\": {}\n}}\n", run.scenarios.len());
            fs::write(format!("{outdir}/meta.json"), meta).unwrap();
            println!("scenarios={} ops={} violations={}", run.scenarios.len(), run.stats.get("ops").copied().unwrap_or(0), run.viols.len());
        },
        Some("exec") => {
            let mut text = String::new();
            if let Some(p) = args.get(2) {
                text = fs::read_to_string(p).unwrap();
            } else {
                std::io::stdin().read_to_string(&mut text).unwrap();
            }
            for l in exec_script(&text) {
                println!("{l}");
            }
        },
        _ => {
            eprintln!("usage: snowh dump | run <prop> <quick|thorough> <seed> <outdir> | exec [opsfile]");
            std::process::exit(2);
        },
    }
    let _ = hex(&[]);
}
