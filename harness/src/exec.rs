//! Executes line-protocol operations on the real snow API, in-process, each call under
//! `catch_unwind`, and records (operation line, canonical result line).

use crate::toy::{new_log, resolver_from_expr, Ev, Log, SessionResolver};
use snow::{
    params::{CipherChoice, DHChoice, HashChoice, NoiseParams},
    Builder, Error, HandshakeState, StatelessTransportState, TransportState,
};
use std::{
    collections::HashMap,
    panic::{catch_unwind, AssertUnwindSafe},
};

pub const FILL: u8 = 0xA5;

pub fn hex(b: &[u8]) -> String {
    if b.is_empty() {
        return "-".into();
    }
    let mut s = String::with_capacity(b.len() * 2);
    for x in b {
        s.push(char::from_digit((x >> 4) as u32, 16).unwrap());
        s.push(char::from_digit((x & 15) as u32, 16).unwrap());
    }
    s
}

pub fn unhex(s: &str) -> Option<Vec<u8>> {
    if s == "-" {
        return Some(vec![]);
    }
    if s.len() % 2 != 0 {
        return None;
    }
    let b = s.as_bytes();
    let mut out = Vec::with_capacity(b.len() / 2);
    for i in (0..b.len()).step_by(2) {
        let h = (b[i] as char).to_digit(16)?;
        let l = (b[i + 1] as char).to_digit(16)?;
        out.push((h * 16 + l) as u8);
    }
    Some(out)
}

pub fn opt_hex(b: &Option<Vec<u8>>) -> String {
    match b {
        Some(v) => hex(v),
        None => "none".into(),
    }
}

fn fnv(b: &[u8]) -> u64 {
    let mut h: u64 = 0xcbf29ce484222325;
    for x in b {
        h ^= *x as u64;
        h = h.wrapping_mul(0x100000001b3);
    }
    h
}

/// `<len>.<fnv64>`: digest used for long event fields.
pub fn dig(b: &[u8]) -> String {
    format!("{}.{:016x}", b.len(), fnv(b))
}

pub fn fmt_events(evs: &[Ev]) -> String {
    if evs.is_empty() {
        return "-".into();
    }
    evs.iter()
        .map(|e| match e {
            Ev::Enc { key, n, ad, pt } => format!("enc:{}:{}:{}:{}", hex(key), n, dig(ad), dig(pt)),
            Ev::Dec { key, n, ad, ct, ok } => {
                format!("dec:{}:{}:{}:{}:{}", hex(key), n, dig(ad), dig(ct), if *ok { 1 } else { 0 })
            },
            Ev::Rng(b) => format!("rng:{}", hex(b)),
        })
        .collect::<Vec<_>>()
        .join(",")
}

/// The buffer with trailing fill bytes stripped.
pub fn strip(buf: &[u8]) -> &[u8] {
    let mut n = buf.len();
    while n > 0 && buf[n - 1] == FILL {
        n -= 1;
    }
    &buf[..n]
}

pub fn err_str(e: &Error) -> String {
    format!("{e:?}")
}

pub enum Sess {
    Hs(Box<HandshakeState>),
    Ts(Box<TransportState>),
    Sts(Box<StatelessTransportState>),
    Dead,
}

/// Outcome of one operation, as seen by generators and oracles.
#[derive(Clone, Debug, PartialEq)]
pub enum Out {
    /// length / payload / written bytes
    Ok(Vec<u8>),
    Err(String),
    Panic,
    NoSession,
}

impl Out {
    pub fn is_ok(&self) -> bool {
        matches!(self, Out::Ok(_))
    }
    pub fn is_err(&self) -> bool {
        matches!(self, Out::Err(_))
    }
    pub fn bytes(&self) -> Option<&[u8]> {
        match self {
            Out::Ok(b) => Some(b),
            _ => None,
        }
    }
    pub fn err(&self) -> Option<&str> {
        match self {
            Out::Err(e) => Some(e),
            _ => None,
        }
    }
}

#[derive(Clone, Default, Debug)]
pub struct BuildSpec {
    pub name: String,
    pub initiator: bool,
    pub resolver: String,
    pub s: Option<Vec<u8>>,
    pub e: Option<Vec<u8>>,
    pub rs: Option<Vec<u8>>,
    pub psks: Vec<(u8, Vec<u8>)>,
    pub prologue: Option<Vec<u8>>,
    pub rng: Vec<u8>,
    /// `NoiseParams.name` replaced after parsing (the field is public, and `NoiseParams::new` takes any string): the
    /// handshake must hash THIS string, whatever the choices are
    pub alias: Option<String>,
    /// `NoiseParams.handshake.modifiers.list` replaced after parsing by a hand-built list (public fields): lists the
    /// parser never produces (duplicates, any order). Rendered `psk0,psk0,fallback`.
    pub mods: Option<String>,
}

#[derive(Clone, Debug, Default)]
pub struct Query {
    pub turn: Option<bool>,
    pub fin: Option<bool>,
    pub init: bool,
    pub enc: Option<bool>,
    pub hh: Option<Vec<u8>>,
    pub rs: Option<Vec<u8>>,
    pub rn: Option<u64>,
    pub sn: Option<u64>,
}

pub struct Exec {
    pub sessions: HashMap<u32, (Sess, Log)>,
    pub ops: Vec<String>,
    pub res: Vec<String>,
    /// last events per op (for oracles)
    pub last_events: Vec<Ev>,
    /// last output buffer after the call (whole buffer)
    pub last_buf: Vec<u8>,
    pub panics: usize,
    /// resolver instances that live as long as this executor (`resolve_on`): one per expression
    pub resolvers: HashMap<String, snow::resolvers::BoxedCryptoResolver>,
    /// conversions alternate between `into_*_transport_mode()` and the public `TryFrom<HandshakeState>` impls
    /// (operation names `to_transport` / `to_transport_tf`, ...): both must behave identically
    pub tf_toggle: bool,
}

fn drain(log: &Log) -> Vec<Ev> {
    std::mem::take(&mut *log.lock().unwrap())
}

impl Exec {
    pub fn new() -> Self {
        Exec {
            sessions: HashMap::new(),
            ops: Vec::new(),
            res: Vec::new(),
            last_events: Vec::new(),
            last_buf: Vec::new(),
            resolvers: HashMap::new(),
            panics: 0,
            tf_toggle: false,
        }
    }

    fn record(&mut self, op: String, res: String) {
        self.ops.push(op);
        self.res.push(res);
    }

    pub fn comment(&mut self, text: &str) {
        let l = format!("# {text}");
        self.record(l.clone(), l);
    }

    pub fn parse(&mut self, name: &[u8]) -> Out {
        let op = format!("parse {}", hex(name));
        let (res, out) = match std::str::from_utf8(name) {
            Err(_) => ("notutf8".to_string(), Out::Err("notutf8".into())),
            Ok(s) => match catch_unwind(|| s.parse::<NoiseParams>()) {
                Err(_) => {
                    self.panics += 1;
                    ("panic".to_string(), Out::Panic)
                },
                Ok(Err(e)) => (format!("err {}", err_str(&e)), Out::Err(err_str(&e))),
                Ok(Ok(p)) => {
                    let mods = if p.handshake.modifiers.list.is_empty() {
                        "-".to_string()
                    } else {
                        p.handshake
                            .modifiers
                            .list
                            .iter()
                            .map(|m| match m {
                                snow::params::HandshakeModifier::Psk(n) => format!("psk{n}"),
                                snow::params::HandshakeModifier::Fallback => "fallback".into(),
                            })
                            .collect::<Vec<_>>()
                            .join(",")
                    };
                    (
                        format!(
                            "ok pattern={} mods={} dh={:?} cipher={:?} hash={:?} name={} psk={} fb={}",
                            p.handshake.pattern.as_str(),
                            mods,
                            p.dh,
                            p.cipher,
                            p.hash,
                            hex(p.name.as_bytes()),
                            u8::from(p.handshake.is_psk()),
                            u8::from(p.handshake.is_fallback())
                        ),
                        Out::Ok(vec![]),
                    )
                },
            },
        };
        self.record(op, res);
        out
    }

    /// The individual `FromStr` impls of the parameter types, called directly.
    pub fn parse_part(&mut self, kind: &str, text: &[u8]) -> String {
        use snow::params::{BaseChoice, CipherChoice, DHChoice, HandshakeChoice, HandshakeModifier, HandshakeModifierList, HandshakePattern, HashChoice};
        let op = format!("parse_part {kind} {}", hex(text));
        let fm = |m: &HandshakeModifier| match m {
            HandshakeModifier::Psk(n) => format!("psk{n}"),
            HandshakeModifier::Fallback => "fallback".to_string(),
        };
        let fl = |l: &[HandshakeModifier]| if l.is_empty() { "-".to_string() } else { l.iter().map(fm).collect::<Vec<_>>().join(",") };
        let res = match std::str::from_utf8(text) {
            Err(_) => "notutf8".to_string(),
            Ok(s) => {
                let r = catch_unwind(AssertUnwindSafe(|| -> Result<String, Error> {
                    Ok(match kind {
                        "base" => s.parse::<BaseChoice>().map(|_| "Noise".to_string())?,
                        "dh" => format!("{:?}", s.parse::<DHChoice>()?),
                        "cipher" => format!("{:?}", s.parse::<CipherChoice>()?),
                        "hash" => format!("{:?}", s.parse::<HashChoice>()?),
                        "pattern" => s.parse::<HandshakePattern>()?.as_str().to_string(),
                        "modifier" => fm(&s.parse::<HandshakeModifier>()?),
                        "modlist" => fl(&s.parse::<HandshakeModifierList>()?.list),
                        "handshake" => {
                            let h = s.parse::<HandshakeChoice>()?;
                            format!("{} {} psk={} fb={}", h.pattern.as_str(), fl(&h.modifiers.list), u8::from(h.is_psk()), u8::from(h.is_fallback()))
                        },
                        _ => "badkind".to_string(),
                    })
                }));
                match r {
                    Err(_) => {
                        self.panics += 1;
                        "panic".to_string()
                    },
                    Ok(Err(e)) => format!("err {}", err_str(&e)),
                    Ok(Ok(v)) => format!("ok {v}"),
                }
            },
        };
        self.record(op, res.clone());
        res
    }

    pub fn tokens(&mut self, pattern_index: usize, mods: &[snow::params::HandshakeModifier]) -> String {
        let ms = if mods.is_empty() {
            "-".to_string()
        } else {
            mods.iter()
                .map(|m| match m {
                    snow::params::HandshakeModifier::Psk(n) => format!("psk{n}"),
                    snow::params::HandshakeModifier::Fallback => "fallback".into(),
                })
                .collect::<Vec<_>>()
                .join(",")
        };
        let op = format!("tokens {pattern_index} {ms}");
        let res = match catch_unwind(|| snow::verif_hooks::tokens_line(pattern_index, mods)) {
            Ok(s) => s,
            Err(_) => {
                self.panics += 1;
                "panic".into()
            },
        };
        self.record(op, res.clone());
        res
    }

    pub fn build(&mut self, sid: u32, spec: &BuildSpec) -> Out {
        let psks = if spec.psks.is_empty() {
            "none".to_string()
        } else {
            spec.psks.iter().map(|(i, k)| format!("{}:{}", i, hex(k))).collect::<Vec<_>>().join(",")
        };
        let op = format!(
            "build {} {} {} res={} s={} e={} rs={} psks={} pro={} rng={}{}",
            sid,
            if spec.initiator { "i" } else { "r" },
            hex(spec.name.as_bytes()),
            spec.resolver,
            opt_hex(&spec.s),
            opt_hex(&spec.e),
            opt_hex(&spec.rs),
            psks,
            opt_hex(&spec.prologue),
            hex(&spec.rng),
            spec.alias.as_ref().map_or(String::new(), |a| format!(" alias=x{}", hex(a.as_bytes()))) + &spec.mods.as_ref().map_or(String::new(), |m| format!(" mods={m}"))
        );
        let log = new_log();
        let r = catch_unwind(AssertUnwindSafe(|| -> Result<HandshakeState, Error> {
            let mut params: NoiseParams = spec.name.parse()?;
            if let Some(a) = &spec.alias {
                params.name = a.clone();
            }
            if let Some(m) = &spec.mods {
                params.handshake.modifiers.list = m
                    .split(',')
                    .filter(|x| !x.is_empty() && *x != "-")
                    .map(|x| if x == "fallback" { snow::params::HandshakeModifier::Fallback } else { snow::params::HandshakeModifier::Psk(x[3..].parse().unwrap_or(255)) })
                    .collect();
            }
            let mut b = if spec.resolver == "new" {
                // snow's own choice of resolver (`Builder::new`): no recording, no scripted randomness
                Builder::new(params)
            } else {
                let inner = resolver_from_expr(&spec.resolver).expect("bad resolver expression");
                let resolver = SessionResolver { inner, rng_stream: Some(spec.rng.clone()), log: log.clone() };
                Builder::with_resolver(params, Box::new(resolver))
            };
            if let Some(s) = &spec.s {
                b = b.local_private_key(s)?;
            }
            if let Some(e) = &spec.e {
                b = b.fixed_ephemeral_key_for_testing_only(e);
            }
            if let Some(rs) = &spec.rs {
                b = b.remote_public_key(rs)?;
            }
            let mut arrs: Vec<(u8, [u8; 32])> = Vec::new();
            for (i, k) in &spec.psks {
                let mut a = [0u8; 32];
                a.copy_from_slice(k);
                arrs.push((*i, a));
            }
            for (i, a) in &arrs {
                b = b.psk(*i, a)?;
            }
            if let Some(p) = &spec.prologue {
                b = b.prologue(p)?;
            }
            if spec.initiator {
                b.build_initiator()
            } else {
                b.build_responder()
            }
        }));
        let (res, out) = match r {
            Err(_) => {
                self.panics += 1;
                ("panic".to_string(), Out::Panic)
            },
            Ok(Err(e)) => (format!("err {}", err_str(&e)), Out::Err(err_str(&e))),
            Ok(Ok(hs)) => {
                drain(&log);
                self.sessions.insert(sid, (Sess::Hs(Box::new(hs)), log));
                ("ok".to_string(), Out::Ok(vec![]))
            },
        };
        self.record(op, res);
        out
    }

    /// Shared tail for buffer-producing calls.
    fn finish_buf(
        &mut self,
        op: String,
        r: std::thread::Result<Result<usize, Error>>,
        buf: Vec<u8>,
        log: &Log,
        payload_is_result: bool,
    ) -> Out {
        let evs = drain(log);
        let (res, out) = match r {
            Err(_) => {
                self.panics += 1;
                ("panic".to_string(), Out::Panic)
            },
            Ok(Err(e)) => (
                format!("err {} buf={} ev={}", err_str(&e), hex(strip(&buf)), fmt_events(&evs)),
                Out::Err(err_str(&e)),
            ),
            Ok(Ok(n)) => {
                if n > buf.len() {
                    (format!("ok-len-beyond-buffer {n}"), Out::Err("len-beyond-buffer".into()))
                } else if payload_is_result {
                    (
                        format!("ok {} buf={} ev={}", hex(&buf[..n]), hex(strip(&buf)), fmt_events(&evs)),
                        Out::Ok(buf[..n].to_vec()),
                    )
                } else {
                    (
                        format!("ok {} buf={} ev={}", n, hex(strip(&buf)), fmt_events(&evs)),
                        Out::Ok(buf[..n].to_vec()),
                    )
                }
            },
        };
        self.last_events = evs;
        self.last_buf = buf;
        self.record(op, res);
        out
    }

    fn no_session(&mut self, op: String) -> Out {
        self.record(op, "nosession".into());
        Out::NoSession
    }

    pub fn hs_write(&mut self, sid: u32, payload: &[u8], cap: usize) -> Out {
        let op = format!("hs_write {} {} {}", sid, hex(payload), cap);
        let Some((Sess::Hs(hs), log)) = self.sessions.get_mut(&sid) else { return self.no_session(op) };
        let log = log.clone();
        let mut buf = vec![FILL; cap];
        let r = catch_unwind(AssertUnwindSafe(|| hs.write_message(payload, &mut buf)));
        self.finish_buf(op, r, buf, &log, false)
    }

    pub fn hs_read(&mut self, sid: u32, msg: &[u8], cap: usize) -> Out {
        let op = format!("hs_read {} {} {}", sid, hex(msg), cap);
        let Some((Sess::Hs(hs), log)) = self.sessions.get_mut(&sid) else { return self.no_session(op) };
        let log = log.clone();
        let mut buf = vec![FILL; cap];
        let r = catch_unwind(AssertUnwindSafe(|| hs.read_message(msg, &mut buf)));
        self.finish_buf(op, r, buf, &log, true)
    }

    pub fn set_psk(&mut self, sid: u32, loc: usize, key: &[u8]) -> Out {
        let op = format!("set_psk {} {} {}", sid, loc, hex(key));
        let Some((Sess::Hs(hs), _)) = self.sessions.get_mut(&sid) else { return self.no_session(op) };
        let r = catch_unwind(AssertUnwindSafe(|| hs.set_psk(loc, key)));
        let (res, out) = match r {
            Err(_) => {
                self.panics += 1;
                ("panic".to_string(), Out::Panic)
            },
            Ok(Err(e)) => (format!("err {}", err_str(&e)), Out::Err(err_str(&e))),
            Ok(Ok(())) => ("ok".to_string(), Out::Ok(vec![])),
        };
        self.record(op, res);
        out
    }

    pub fn query(&mut self, sid: u32) -> Option<Query> {
        let op = format!("query {sid}");
        let b = |x: bool| if x { 1 } else { 0 };
        let (res, q) = match self.sessions.get(&sid) {
            Some((Sess::Hs(hs), _)) => {
                let q = Query {
                    turn: Some(hs.is_my_turn()),
                    fin: Some(hs.is_handshake_finished()),
                    init: hs.is_initiator(),
                    enc: Some(hs.was_write_payload_encrypted()),
                    hh: Some(hs.get_handshake_hash().to_vec()),
                    rs: hs.get_remote_static().map(<[u8]>::to_vec),
                    rn: None,
                    sn: None,
                };
                (
                    format!(
                        "hs turn={} fin={} init={} enc={} hh={} rs={}",
                        b(q.turn.unwrap()),
                        b(q.fin.unwrap()),
                        b(q.init),
                        b(q.enc.unwrap()),
                        hex(q.hh.as_ref().unwrap()),
                        opt_hex(&q.rs)
                    ),
                    Some(q),
                )
            },
            Some((Sess::Ts(ts), _)) => {
                let q = Query {
                    init: ts.is_initiator(),
                    rs: ts.get_remote_static().map(<[u8]>::to_vec),
                    rn: Some(ts.receiving_nonce()),
                    sn: Some(ts.sending_nonce()),
                    ..Default::default()
                };
                (
                    format!("ts init={} rs={} rn={} sn={}", b(q.init), opt_hex(&q.rs), q.rn.unwrap(), q.sn.unwrap()),
                    Some(q),
                )
            },
            Some((Sess::Sts(ts), _)) => {
                let q = Query {
                    init: ts.is_initiator(),
                    rs: ts.get_remote_static().map(<[u8]>::to_vec),
                    ..Default::default()
                };
                (format!("sts init={} rs={}", b(q.init), opt_hex(&q.rs)), Some(q))
            },
            _ => ("nosession".to_string(), None),
        };
        self.record(op, res);
        q
    }

    /// `HandshakeState::dangerously_get_raw_split` (feature `risky-raw-split`): callable at any time.
    pub fn raw_split(&mut self, sid: u32) -> Option<(Vec<u8>, Vec<u8>)> {
        let op = format!("raw_split {sid}");
        let Some((Sess::Hs(hs), _)) = self.sessions.get_mut(&sid) else {
            self.record(op, "nosession".into());
            return None;
        };
        let r = catch_unwind(AssertUnwindSafe(|| hs.dangerously_get_raw_split()));
        match r {
            Ok((a, b)) => {
                self.record(op, format!("ok {} {}", hex(&a), hex(&b)));
                Some((a.to_vec(), b.to_vec()))
            },
            Err(_) => {
                self.panics += 1;
                self.record(op, "panic".into());
                None
            },
        }
    }

    pub fn convert(&mut self, sid: u32, stateless: bool) -> Out {
        self.tf_toggle = !self.tf_toggle;
        let tf = self.tf_toggle;
        self.convert_via(sid, stateless, tf)
    }

    /// `via_tryfrom`: `TransportState::try_from(hs)` / `StatelessTransportState::try_from(hs)` instead of the methods.
    pub fn convert_via(&mut self, sid: u32, stateless: bool, via_tryfrom: bool) -> Out {
        let op = format!("{}{} {}", if stateless { "to_stateless" } else { "to_transport" }, if via_tryfrom { "_tf" } else { "" }, sid);
        let Some((sess, log)) = self.sessions.remove(&sid) else { return self.no_session(op) };
        let Sess::Hs(hs) = sess else {
            self.sessions.insert(sid, (sess, log));
            return self.no_session(op);
        };
        let r = catch_unwind(AssertUnwindSafe(move || -> Result<Sess, Error> {
            match (stateless, via_tryfrom) {
                (true, false) => Ok(Sess::Sts(Box::new(hs.into_stateless_transport_mode()?))),
                (false, false) => Ok(Sess::Ts(Box::new(hs.into_transport_mode()?))),
                (true, true) => Ok(Sess::Sts(Box::new(snow::StatelessTransportState::try_from(*hs)?))),
                (false, true) => Ok(Sess::Ts(Box::new(snow::TransportState::try_from(*hs)?))),
            }
        }));
        let (res, out) = match r {
            Err(_) => {
                self.panics += 1;
                ("panic".to_string(), Out::Panic)
            },
            Ok(Err(e)) => {
                self.sessions.insert(sid, (Sess::Dead, log));
                (format!("err {}", err_str(&e)), Out::Err(err_str(&e)))
            },
            Ok(Ok(s)) => {
                self.sessions.insert(sid, (s, log));
                ("ok".to_string(), Out::Ok(vec![]))
            },
        };
        self.record(op, res);
        out
    }

    pub fn t_write(&mut self, sid: u32, payload: &[u8], cap: usize) -> Out {
        let op = format!("t_write {} {} {}", sid, hex(payload), cap);
        let Some((Sess::Ts(ts), log)) = self.sessions.get_mut(&sid) else { return self.no_session(op) };
        let log = log.clone();
        let mut buf = vec![FILL; cap];
        let r = catch_unwind(AssertUnwindSafe(|| ts.write_message(payload, &mut buf)));
        self.finish_buf(op, r, buf, &log, false)
    }

    pub fn t_read(&mut self, sid: u32, msg: &[u8], cap: usize) -> Out {
        let op = format!("t_read {} {} {}", sid, hex(msg), cap);
        let Some((Sess::Ts(ts), log)) = self.sessions.get_mut(&sid) else { return self.no_session(op) };
        let log = log.clone();
        let mut buf = vec![FILL; cap];
        let r = catch_unwind(AssertUnwindSafe(|| ts.read_message(msg, &mut buf)));
        self.finish_buf(op, r, buf, &log, true)
    }

    pub fn st_write(&mut self, sid: u32, nonce: u64, payload: &[u8], cap: usize) -> Out {
        let op = format!("st_write {} {} {} {}", sid, nonce, hex(payload), cap);
        let Some((Sess::Sts(ts), log)) = self.sessions.get_mut(&sid) else { return self.no_session(op) };
        let log = log.clone();
        let mut buf = vec![FILL; cap];
        let r = catch_unwind(AssertUnwindSafe(|| ts.write_message(nonce, payload, &mut buf)));
        self.finish_buf(op, r, buf, &log, false)
    }

    pub fn st_read(&mut self, sid: u32, nonce: u64, msg: &[u8], cap: usize) -> Out {
        let op = format!("st_read {} {} {} {}", sid, nonce, hex(msg), cap);
        let Some((Sess::Sts(ts), log)) = self.sessions.get_mut(&sid) else { return self.no_session(op) };
        let log = log.clone();
        let mut buf = vec![FILL; cap];
        let r = catch_unwind(AssertUnwindSafe(|| ts.read_message(nonce, msg, &mut buf)));
        self.finish_buf(op, r, buf, &log, true)
    }

    /// which: out | in
    pub fn rekey(&mut self, sid: u32, which: &str) -> Out {
        let op = format!("rekey {sid} {which}");
        let Some((sess, log)) = self.sessions.get_mut(&sid) else { return self.no_session(op) };
        let log = log.clone();
        let r = catch_unwind(AssertUnwindSafe(|| match (sess, which) {
            (Sess::Ts(ts), "out") => {
                ts.rekey_outgoing();
                true
            },
            (Sess::Ts(ts), "in") => {
                ts.rekey_incoming();
                true
            },
            (Sess::Sts(ts), "out") => {
                ts.rekey_outgoing();
                true
            },
            (Sess::Sts(ts), "in") => {
                ts.rekey_incoming();
                true
            },
            _ => false,
        }));
        let evs = drain(&log);
        let (res, out) = match r {
            Err(_) => {
                self.panics += 1;
                ("panic".to_string(), Out::Panic)
            },
            Ok(false) => ("nosession".to_string(), Out::NoSession),
            Ok(true) => (format!("ok ev={}", fmt_events(&evs)), Out::Ok(vec![])),
        };
        self.last_events = evs;
        self.record(op, res);
        out
    }

    pub fn rekey_manual(&mut self, sid: u32, ki: Option<&[u8; 32]>, kr: Option<&[u8; 32]>) -> Out {
        // every other call goes through the dedicated `rekey_initiator_manually` / `rekey_responder_manually`
        self.tf_toggle = !self.tf_toggle;
        let direct = self.tf_toggle;
        self.rekey_manual_via(sid, ki, kr, direct)
    }

    /// `direct`: `rekey_initiator_manually(k)` / `rekey_responder_manually(k)` (one call per given key, initiator first,
    /// which is what `rekey_manually` is documented to do) instead of `rekey_manually(ki, kr)`.
    pub fn rekey_manual_via(&mut self, sid: u32, ki: Option<&[u8; 32]>, kr: Option<&[u8; 32]>, direct: bool) -> Out {
        let f = |k: Option<&[u8; 32]>| k.map_or("none".to_string(), |k| hex(k));
        let op = format!("rekey_manual{} {} {} {}", if direct { "_d" } else { "" }, sid, f(ki), f(kr));
        let Some((sess, _)) = self.sessions.get_mut(&sid) else { return self.no_session(op) };
        let r = catch_unwind(AssertUnwindSafe(|| match sess {
            Sess::Ts(ts) => {
                if direct {
                    if let Some(k) = ki {
                        ts.rekey_initiator_manually(k);
                    }
                    if let Some(k) = kr {
                        ts.rekey_responder_manually(k);
                    }
                } else {
                    ts.rekey_manually(ki, kr);
                }
                true
            },
            Sess::Sts(ts) => {
                if direct {
                    if let Some(k) = ki {
                        ts.rekey_initiator_manually(k);
                    }
                    if let Some(k) = kr {
                        ts.rekey_responder_manually(k);
                    }
                } else {
                    ts.rekey_manually(ki, kr);
                }
                true
            },
            _ => false,
        }));
        let (res, out) = match r {
            Err(_) => {
                self.panics += 1;
                ("panic".to_string(), Out::Panic)
            },
            Ok(false) => ("nosession".to_string(), Out::NoSession),
            Ok(true) => ("ok".to_string(), Out::Ok(vec![])),
        };
        self.record(op, res);
        out
    }

    pub fn set_recv_nonce(&mut self, sid: u32, n: u64) {
        let op = format!("set_recv_nonce {sid} {n}");
        let res = match self.sessions.get_mut(&sid) {
            Some((Sess::Ts(ts), _)) => {
                ts.set_receiving_nonce(n);
                "ok"
            },
            _ => "nosession",
        };
        self.record(op, res.into());
    }

    pub fn set_send_nonce(&mut self, sid: u32, n: u64) {
        let op = format!("set_send_nonce {sid} {n}");
        let res = match self.sessions.get_mut(&sid) {
            Some((Sess::Ts(ts), _)) => {
                ts.verif_set_sending_nonce(n);
                "ok"
            },
            _ => "nosession",
        };
        self.record(op, res.into());
    }

    pub fn drop_session(&mut self, sid: u32) {
        self.sessions.remove(&sid);
        self.record(format!("drop {sid}"), "ok".into());
    }

    /// `setters <item,item,...>`: a chain of builder setter calls on a fresh builder, stopping at the first error.
    /// Items: `psk:<loc>:<hex32>`, `s:<hex>`, `e:<hex>`, `pro:<hex>`, `rs:<hex>` (`-` = empty).
    pub fn setters(&mut self, spec: &str) -> Out {
        let op = format!("setters {spec}");
        let items: Vec<(String, u8, Vec<u8>)> = spec
            .split(',')
            .filter(|x| !x.is_empty() && *x != "-")
            .map(|it| {
                let f: Vec<&str> = it.split(':').collect();
                let unh = |h: &str| if h == "-" { vec![] } else { unhex(h).unwrap_or_default() };
                if f[0] == "psk" {
                    ("psk".to_string(), f[1].parse::<u8>().unwrap_or(255), unh(f[2]))
                } else {
                    (f[0].to_string(), 0, unh(f.get(1).copied().unwrap_or("-")))
                }
            })
            .collect();
        let arrs: Vec<[u8; 32]> = items
            .iter()
            .map(|(_, _, k)| {
                let mut a = [0u8; 32];
                let n = k.len().min(32);
                a[..n].copy_from_slice(&k[..n]);
                a
            })
            .collect();
        let r = catch_unwind(AssertUnwindSafe(|| -> Result<(), Error> {
            let params: NoiseParams = "Noise_NN_25519_ChaChaPoly_SHA256".parse()?;
            let mut b = Builder::new(params);
            for (i, (kind, loc, data)) in items.iter().enumerate() {
                b = match kind.as_str() {
                    "psk" => b.psk(*loc, &arrs[i])?,
                    "s" => b.local_private_key(data)?,
                    "e" => b.fixed_ephemeral_key_for_testing_only(data),
                    "pro" => b.prologue(data)?,
                    _ => b.remote_public_key(data)?,
                };
            }
            let _ = b;
            Ok(())
        }));
        let (res, out) = match r {
            Err(_) => {
                self.panics += 1;
                ("panic".to_string(), Out::Panic)
            },
            Ok(Err(e)) => (format!("err {}", err_str(&e)), Out::Err(err_str(&e))),
            Ok(Ok(())) => ("ok".to_string(), Out::Ok(vec![])),
        };
        self.record(op, res);
        out
    }

    /// `genkey <resolver-expr> <name-hex> rng=<hex>`: `Builder::generate_keypair` with a scripted RNG.
    pub fn genkey(&mut self, expr: &str, name: &str, rng: &[u8]) -> Out {
        let op = format!("genkey {expr} {} rng={}", hex(name.as_bytes()), hex(rng));
        let r = catch_unwind(AssertUnwindSafe(|| -> Result<(Vec<u8>, Vec<u8>), Error> {
            let params: NoiseParams = name.parse()?;
            let inner = resolver_from_expr(expr).expect("bad resolver expression");
            let resolver = SessionResolver { inner, rng_stream: Some(rng.to_vec()), log: new_log() };
            let kp = Builder::with_resolver(params, Box::new(resolver)).generate_keypair()?;
            Ok((kp.private, kp.public))
        }));
        let (res, out) = match r {
            Err(_) => {
                self.panics += 1;
                ("panic".to_string(), Out::Panic)
            },
            Ok(Err(e)) => (format!("err {}", err_str(&e)), Out::Err(err_str(&e))),
            Ok(Ok((sk, pk))) => {
                let mut both = sk.clone();
                both.extend_from_slice(&pk);
                (format!("ok priv={} pub={}", hex(&sk), hex(&pk)), Out::Ok(both))
            },
        };
        self.record(op, res);
        out
    }

    /// `resolve <expr> <kind> <choice>`: availability and parameters of what a resolver yields.
    pub fn resolve(&mut self, expr: &str, kind: &str, choice: &str) -> String {
        let op = format!("resolve {expr} {kind} {choice}");
        let res = catch_unwind(|| resolve_line(expr, kind, choice)).unwrap_or_else(|_| "panic".into());
        self.record(op, res.clone());
        res
    }

    /// Like `resolve`, but on ONE resolver instance per expression kept for the whole scenario: a resolver must
    /// answer every request independently of the requests made before.
    pub fn resolve_on(&mut self, expr: &str, kind: &str, choice: &str) -> String {
        let op = format!("resolve_on {expr} {kind} {choice}");
        if !self.resolvers.contains_key(expr) {
            match resolver_from_expr(expr) {
                Some(r) => {
                    self.resolvers.insert(expr.to_string(), r);
                },
                None => {
                    self.record(op, "badexpr".into());
                    return "badexpr".into();
                },
            }
        }
        let r = self.resolvers.get(expr).unwrap();
        let res = catch_unwind(AssertUnwindSafe(|| resolve_with(&**r, kind, choice))).unwrap_or_else(|_| "panic".into());
        self.record(op, res.clone());
        res
    }
}

pub fn dh_choice(s: &str) -> Option<DHChoice> {
    match s {
        "Curve25519" => Some(DHChoice::Curve25519),
        "Curve448" => Some(DHChoice::Curve448),
        #[cfg(feature = "full")]
        "P256" => Some(DHChoice::P256),
        _ => None,
    }
}
pub fn cipher_choice(s: &str) -> Option<CipherChoice> {
    match s {
        "ChaChaPoly" => Some(CipherChoice::ChaChaPoly),
        #[cfg(feature = "full")]
        "XChaChaPoly" => Some(CipherChoice::XChaChaPoly),
        "AESGCM" => Some(CipherChoice::AESGCM),
        _ => None,
    }
}
pub fn hash_choice(s: &str) -> Option<HashChoice> {
    match s {
        "SHA256" => Some(HashChoice::SHA256),
        "SHA512" => Some(HashChoice::SHA512),
        "Blake2s" => Some(HashChoice::Blake2s),
        "Blake2b" => Some(HashChoice::Blake2b),
        _ => None,
    }
}

pub fn resolve_line(expr: &str, kind: &str, choice: &str) -> String {
    let Some(r) = resolver_from_expr(expr) else { return "badexpr".into() };
    resolve_with(&*r, kind, choice)
}

pub fn resolve_with(r: &dyn snow::resolvers::CryptoResolver, kind: &str, choice: &str) -> String {
    match kind {
        "rng" => match r.resolve_rng() {
            None => "none".into(),
            Some(mut g) => {
                // recognisable (marked) sources yield one non-zero byte value forever
                let mut b = [0u8; 8];
                rand_core::RngCore::fill_bytes(&mut *g, &mut b);
                if (b[0] == 1 || b[0] == 2) && b.iter().all(|x| *x == b[0]) { format!("some mark={:02x}", b[0]) } else { "some".into() }
            },
        },
        "dh" => match dh_choice(choice).and_then(|c| r.resolve_dh(&c)) {
            Some(d) => format!("some name={} a={} b={} c={}", d.name(), d.pub_len(), d.priv_len(), d.dh_len()),
            None => "none".into(),
        },
        "hash" => match hash_choice(choice).and_then(|c| r.resolve_hash(&c)) {
            Some(h) => format!("some name={} a={} b={} c=0", h.name(), h.hash_len(), h.block_len()),
            None => "none".into(),
        },
        "cipher" => match cipher_choice(choice).and_then(|c| r.resolve_cipher(&c)) {
            Some(c) => format!("some name={} a=0 b=0 c=0", c.name()),
            None => "none".into(),
        },
        _ => "badkind".into(),
    }
}
