//! `prim` component: the primitive wrappers of every resolver (default, ring, toy) driven
//! directly through the public `types::*` traits, for comparison with the Lean references.

use crate::{
    exec::{cipher_choice, dh_choice, hash_choice, hex, strip, unhex, Exec, FILL},
    gen::{Run, Sc},
    toy::resolver_from_expr,
    util::Rng64,
};
use std::panic::{catch_unwind, AssertUnwindSafe};

fn prim_result(parts: &[&str]) -> String {
    let b = |s: &str| unhex(s).unwrap_or_default();
    let Some(r) = resolver_from_expr(parts[1]) else { return "badexpr".into() };
    let res = catch_unwind(AssertUnwindSafe(|| -> String {
        match parts[2] {
            "hash" => {
                let Some(mut h) = hash_choice(parts[3]).and_then(|c| r.resolve_hash(&c)) else { return "none".into() };
                let mut out = [0u8; 64];
                h.reset();
                // feed in two pieces to exercise the streaming interface
                let d = b(parts[4]);
                let cut = d.len() / 3;
                h.input(&d[..cut]);
                h.input(&d[cut..]);
                h.result(&mut out);
                format!("ok {}", hex(&out[..h.hash_len()]))
            },
            "hmac" => {
                let Some(mut h) = hash_choice(parts[3]).and_then(|c| r.resolve_hash(&c)) else { return "none".into() };
                let mut out = [0u8; 64];
                h.hmac(&b(parts[4]), &b(parts[5]), &mut out);
                format!("ok {}", hex(&out[..h.hash_len()]))
            },
            "hashseq" => {
                // ONE hash object with pending input: `reset()` must discard it, and `hmac` must not see it
                let Some(mut h) = hash_choice(parts[3]).and_then(|c| r.resolve_hash(&c)) else { return "none".into() };
                let (pending, data, key) = (b(parts[4]), b(parts[5]), b(parts[6]));
                let mut out = [0u8; 64];
                h.reset();
                h.input(&pending);
                h.reset();
                h.input(&data);
                h.result(&mut out);
                let a = hex(&out[..h.hash_len()]);
                h.input(&pending);
                let mut out2 = [0u8; 64];
                h.hmac(&key, &data, &mut out2);
                let bb = hex(&out2[..h.hash_len()]);
                h.input(&pending);
                let (mut o1, mut o2, mut o3) = ([0u8; 64], [0u8; 64], [0u8; 64]);
                h.hkdf(&key[..key.len().min(h.hash_len())], &data, 2, &mut o1, &mut o2, &mut o3);
                // input in pieces (the shape of MixHash: h, then data), a result() in the middle, then more input
                h.reset();
                h.input(&pending);
                h.input(&data);
                let mut o4 = [0u8; 64];
                h.result(&mut o4);
                h.reset();
                h.input(&pending);
                h.input(&data);
                h.input(&key);
                let mut o5 = [0u8; 64];
                h.result(&mut o5);
                format!("ok {a} {bb} {} {} {} {}", hex(&o1[..h.hash_len()]), hex(&o2[..h.hash_len()]), hex(&o4[..h.hash_len()]), hex(&o5[..h.hash_len()]))
            },
            "hmacseq" => {
                // several HMACs on ONE hash object (a wrapper that caches keyed state between calls must not let an
                // earlier key influence a later result)
                let Some(mut h) = hash_choice(parts[3]).and_then(|c| r.resolve_hash(&c)) else { return "none".into() };
                let mut outs = vec![];
                for kd in parts[4].split(',') {
                    let (k, d) = kd.split_once(':').unwrap_or((kd, "-"));
                    let mut out = [0u8; 64];
                    h.hmac(&b(k), &b(d), &mut out);
                    outs.push(hex(&out[..h.hash_len()]));
                }
                format!("ok {}", outs.join(","))
            },
            "hkdf" => {
                let Some(mut h) = hash_choice(parts[3]).and_then(|c| r.resolve_hash(&c)) else { return "none".into() };
                let n: usize = parts[6].parse().unwrap();
                let (mut o1, mut o2, mut o3) = ([0u8; 64], [0u8; 64], [0u8; 64]);
                h.hkdf(&b(parts[4]), &b(parts[5]), n, &mut o1, &mut o2, &mut o3);
                let l = h.hash_len();
                format!("ok {} {} {}", hex(&o1[..l]), if n >= 2 { hex(&o2[..l]) } else { "-".into() }, if n >= 3 { hex(&o3[..l]) } else { "-".into() })
            },
            "enc" => {
                let Some(mut c) = cipher_choice(parts[3]).and_then(|c| r.resolve_cipher(&c)) else { return "none".into() };
                let key: [u8; 32] = b(parts[4]).try_into().unwrap();
                c.set(&key);
                let pt = b(parts[7]);
                let mut out = vec![FILL; pt.len() + 16];
                let n = c.encrypt(parts[5].parse().unwrap(), &b(parts[6]), &pt, &mut out);
                format!("ok {}", hex(&out[..n]))
            },
            "dec" => {
                let Some(mut c) = cipher_choice(parts[3]).and_then(|c| r.resolve_cipher(&c)) else { return "none".into() };
                let key: [u8; 32] = b(parts[4]).try_into().unwrap();
                c.set(&key);
                let ct = b(parts[7]);
                let cap: usize = parts[8].parse().unwrap();
                let mut out = vec![FILL; cap];
                match c.decrypt(parts[5].parse().unwrap(), &b(parts[6]), &ct, &mut out) {
                    Ok(n) => format!("ok {} buf={}", hex(&out[..n]), hex(strip(&out))),
                    Err(e) => format!("err {e:?} buf={}", hex(strip(&out))),
                }
            },
            "rekey" => {
                let Some(mut c) = cipher_choice(parts[3]).and_then(|c| r.resolve_cipher(&c)) else { return "none".into() };
                let key: [u8; 32] = b(parts[4]).try_into().unwrap();
                c.set(&key);
                c.rekey();
                // observe the new key through an encryption of a fixed block under nonce 0
                let mut out = vec![0u8; 32];
                let n = c.encrypt(0, &[], &[0u8; 16], &mut out);
                format!("ok {}", hex(&out[..n]))
            },
            "pub" => {
                let Some(mut d) = dh_choice(parts[3]).and_then(|c| r.resolve_dh(&c)) else { return "none".into() };
                d.set(&b(parts[4]));
                format!("ok {} priv={}", hex(d.pubkey()), hex(d.privkey()))
            },
            "dhseq" => {
                // ONE Dh object used twice: set(k1), then generate() drawing k2 from a scripted source (and, in the
                // other order, set(k2) after generate() drew k1): key pair and DH must be those of the LAST key
                let Some(mut d) = dh_choice(parts[3]).and_then(|c| r.resolve_dh(&c)) else { return "none".into() };
                let (k1, k2, peer) = (b(parts[4]), b(parts[5]), b(parts[6]));
                let mut out = [0u8; 65];
                let mut res = vec![];
                d.set(&k1);
                let mut rng = crate::toy::ScriptedRng::new(k2.clone(), crate::toy::new_log());
                d.generate(&mut rng);
                res.push(format!("{} {}", hex(d.pubkey()), match d.dh(&peer, &mut out) { Ok(()) => hex(&out[..d.dh_len()]), Err(e) => format!("err{e:?}") }));
                let mut rng = crate::toy::ScriptedRng::new(k1.clone(), crate::toy::new_log());
                d.generate(&mut rng);
                d.set(&k2);
                res.push(format!("{} {}", hex(d.pubkey()), match d.dh(&peer, &mut out) { Ok(()) => hex(&out[..d.dh_len()]), Err(e) => format!("err{e:?}") }));
                format!("ok {}", res.join(" "))
            },
            "dh" => {
                let Some(mut d) = dh_choice(parts[3]).and_then(|c| r.resolve_dh(&c)) else { return "none".into() };
                d.set(&b(parts[4]));
                let mut out = [0u8; 65];
                match d.dh(&b(parts[5]), &mut out) {
                    Ok(()) => format!("ok {}", hex(&out[..d.dh_len()])),
                    Err(e) => format!("err {e:?}"),
                }
            },
            _ => "badop".into(),
        }
    }));
    res.unwrap_or_else(|_| "panic".into())
}

pub fn exec_prim(ex: &mut Exec, parts: &[&str]) {
    let op = parts.join(" ");
    let res = prim_result(parts);
    ex.ops.push(op);
    ex.res.push(res);
}

fn prim(sc: &mut Sc, line: String) -> String {
    let parts: Vec<&str> = line.split(' ').collect();
    let res = prim_result(&parts);
    sc.ex.ops.push(line.clone());
    sc.ex.res.push(res.clone());
    sc.count(&format!("prim.{}", parts[2]));
    // C20 oracle (implementation only): what the ring backend computes for a hash / cipher operation is what the
    // default backend computes for it (the contents of failure buffers, `buf=`, are backend-specific and left out)
    if parts[1] == "ring" && matches!(parts[2], "hash" | "hmac" | "hkdf" | "hashseq" | "hmacseq" | "enc" | "dec" | "rekey") && res != "none" {
        let mut p2 = parts.clone();
        p2[1] = "default";
        let other = prim_result(&p2);
        let strip = |x: &str| x.split(" buf=").next().unwrap_or("").to_string();
        sc.count("prim.ring_vs_default");
        if other != "none" && strip(&other) != strip(&res) {
            sc.viol("C20", format!("ring and default backends differ on `{}`: {} vs {}", &line[..line.len().min(160)], &res[..res.len().min(100)], &other[..other.len().min(100)]));
        }
    }
    res
}

/// `light`: a small sample (used by properties that only need the wrappers tied to the model).
#[allow(clippy::too_many_lines)]
pub fn gen_prim(run: &mut Run, seed: u64, thorough: bool, light: bool) {
    let mut r = Rng64(seed ^ 0x7072696d);
    let n_rand = if light { 6 } else if thorough { 400 } else { 60 };
    let sweep = if light { 0 } else if thorough { 300 } else { 140 };
    for res in ["default", "ring", "toy"] {
        if !crate::gen::FULL && res == "ring" {
            continue;   // second binary (snow with default features only): no ring backend
        }
        // ---- hashes, hmac, hkdf
        for h in ["SHA256", "SHA512", "Blake2s", "Blake2b"] {
            if res == "ring" && h.starts_with("Blake") {
                continue;
            }
            let mut sc = Sc::new();
            sc.ex.comment(&format!("prim {res} hash/hmac/hkdf {h}"));
            let block = if h == "SHA256" || h == "Blake2s" { 64 } else { 128 };
            let hlen = block / 2;
            for len in (0..=sweep).chain([1000, 65535, 65536].into_iter().filter(|_| !light)) {
                prim(&mut sc, format!("prim {res} hash {h} {}", hex(&r.bytes(len))));
            }
            for _ in 0..n_rand {
                let klen = r.below(block + 1);
                let dlen = r.below(300);
                prim(&mut sc, format!("prim {res} hmac {h} {} {}", hex(&r.bytes(klen)), hex(&r.bytes(dlen))));
                let ikm = [0usize, 32, 56, 65, r.below(100)][r.below(5)];
                prim(&mut sc, format!("prim {res} hkdf {h} {} {} {}", hex(&r.bytes(hlen)), hex(&r.bytes(ikm)), 1 + r.below(3)));
            }
            for klen in [0, 1, block - 1, block] {
                prim(&mut sc, format!("prim {res} hmac {h} {} {}", hex(&r.bytes(klen)), hex(&r.bytes(50))));
            }
            for _ in 0..(if light { 1 } else { 4 }) {
                let (a, bq, c) = (r.below(200), r.below(200), r.below(block + 1));
                prim(&mut sc, format!("prim {res} hashseq {h} {} {} {}", hex(&r.bytes(1 + a)), hex(&r.bytes(bq)), hex(&r.bytes(c))));
            }
            // the shape of MixHash (h, then data) with data a whole number of blocks; short-then-aligned and
            // aligned-then-short pieces around the block length
            for (a, bq, c) in [(hlen, block, 3), (hlen, 2 * block, 1), (1, block, hlen), (block - 1, block, block), (block, hlen, block), (hlen, 3 * block, block), (block + 1, block, 1)] {
                prim(&mut sc, format!("prim {res} hashseq {h} {} {} {}", hex(&r.bytes(a)), hex(&r.bytes(bq)), hex(&r.bytes(c))));
            }
            // one hash object, related keys: the same key twice, a prefix of the previous key, the previous key
            // extended, zero-padded variants, and unrelated keys in between
            for _ in 0..(if light { 1 } else { 6 }) {
                let base = r.bytes(block);
                let mut items: Vec<String> = vec![];
                let mut prev = base.clone();
                for step in 0..8 {
                    let key: Vec<u8> = match (step + r.below(3)) % 6 {
                        0 => prev.clone(),
                        1 => prev[..prev.len().saturating_sub(1 + r.below(prev.len().max(1)))].to_vec(),
                        2 => { let mut k = prev.clone(); if k.len() < block { k.push(r.below(256) as u8); } k },
                        3 => { let mut k = prev.clone(); if k.len() < block { k.push(0); } k },
                        4 => base[..r.below(block + 1)].to_vec(),
                        _ => { let n = r.below(block + 1); r.bytes(n) },
                    };
                    let dlen = r.below(70);
                    items.push(format!("{}:{}", hex(&key), hex(&r.bytes(dlen))));
                    prev = key;
                }
                prim(&mut sc, format!("prim {res} hmacseq {h} {}", items.join(",")));
            }
            run.add("prim", format!("{res} {h}"), sc);
        }
        // ---- ciphers
        for c in ["ChaChaPoly", "XChaChaPoly", "AESGCM"] {
            if (res == "ring" || !crate::gen::FULL) && c == "XChaChaPoly" {
                continue;
            }
            let mut sc = Sc::new();
            sc.ex.comment(&format!("prim {res} cipher {c}"));
            let mut lens: Vec<(usize, usize)> = vec![];
            for pl in 0..=(sweep.min(80)) {
                lens.push((pl, [0usize, 1, 16, 32, 64][pl % 5]));
            }
            for _ in 0..n_rand {
                lens.push((r.below(400), r.below(80)));
            }
            if !light {
                lens.push((65519, 32));
                lens.push((1000, 64));
                // the wrappers are public trait objects: lengths beyond what a Noise message can carry must round-trip too
                lens.push(([65520usize, 65527, 65535][r.below(3)], 0));
                lens.push(([65536usize, 65551, 70000][r.below(3)], 16));
            }
            for (pl, al) in lens {
                let key = r.bytes(32);
                let nonce = match r.below(6) {
                    0 => 0,
                    1 => u64::MAX,
                    2 => 1u64 << r.below(64),
                    3 => r.below(1000) as u64,
                    _ => r.next(),
                };
                let ad = r.bytes(al);
                let pt = r.bytes(pl);
                let line = prim(&mut sc, format!("prim {res} enc {c} {} {} {} {}", hex(&key), nonce, hex(&ad), hex(&pt)));
                let Some(ct) = line.strip_prefix("ok ").and_then(unhex) else { continue };
                if ct.len() != pl + 16 {
                    sc.viol("C18", format!("{res} {c}: ciphertext of {} bytes for {pl}-byte plaintext", ct.len()));
                }
                // decrypt inverts
                let cap = pl + [0usize, 0, 16, 20][r.below(4)];
                let line = prim(&mut sc, format!("prim {res} dec {c} {} {} {} {} {}", hex(&key), nonce, hex(&ad), hex(&ct), cap));
                if !line.starts_with(&format!("ok {} ", hex(&pt))) {
                    sc.viol("C18", format!("{res} {c}: decrypt does not invert encrypt (pt {pl} bytes)"));
                }
                // and rejects everything else: bit flip in body / tag, other nonce, other ad
                let mut bad = ct.clone();
                let i = r.below(bad.len());
                bad[i] ^= 1 << r.below(8);
                let cap = [pl, pl + 16, pl + 40][r.below(3)];
                let line = prim(&mut sc, format!("prim {res} dec {c} {} {} {} {} {}", hex(&key), nonce, hex(&ad), hex(&bad), cap));
                if !line.starts_with("err Decrypt") {
                    sc.viol("C18", format!("{res} {c}: forged ciphertext accepted"));
                } else if pl >= 16 {
                    let buf = line.split("buf=").nth(1).and_then(unhex).unwrap_or_default();
                    if buf.windows(pl).any(|w| w == pt.as_slice()) {
                        sc.viol("C19", format!("{res} {c}: failed decrypt left the plaintext in the output buffer (cap {cap})"));
                    }
                }
                let line = prim(&mut sc, format!("prim {res} dec {c} {} {} {} {} {}", hex(&key), nonce.wrapping_add(1), hex(&ad), hex(&ct), pl));
                if !line.starts_with("err Decrypt") {
                    sc.viol("C18", format!("{res} {c}: ciphertext accepted under another nonce"));
                }
                let mut ad2 = ad.clone();
                ad2.push(0);
                let line = prim(&mut sc, format!("prim {res} dec {c} {} {} {} {} {}", hex(&key), nonce, hex(&ad2), hex(&ct), pl));
                if !line.starts_with("err Decrypt") {
                    sc.viol("C18", format!("{res} {c}: ciphertext accepted under other associated data"));
                }
            }
            for _ in 0..(n_rand / 4 + 2) {
                prim(&mut sc, format!("prim {res} rekey {c} {}", hex(&r.bytes(32))));
            }
            run.add("prim", format!("{res} {c}"), sc);
        }
        // ---- dh
        if res == "ring" {
            continue;
        }
        for d in ["Curve25519", "P256", "Curve448"] {
            if (res == "default" && d == "Curve448") || (!crate::gen::FULL && d == "P256") {
                continue;
            }
            let mut sc = Sc::new();
            sc.ex.comment(&format!("prim {res} dh {d}"));
            let mut pubs: Vec<Vec<u8>> = vec![];
            for _ in 0..(n_rand / 2 + 4) {
                let a = r.bytes(32);
                let bb = r.bytes(32);
                let pa = prim(&mut sc, format!("prim {res} pub {d} {}", hex(&a)));
                let pb = prim(&mut sc, format!("prim {res} pub {d} {}", hex(&bb)));
                let get = |l: &str| l.strip_prefix("ok ").and_then(|x| x.split(' ').next()).and_then(unhex);
                let (Some(pa), Some(pb)) = (get(&pa), get(&pb)) else { continue };
                if pa == pb {
                    sc.viol("C18", format!("{res} {d}: two private keys with one public key"));
                }
                let s1 = prim(&mut sc, format!("prim {res} dh {d} {} {}", hex(&a), hex(&pb)));
                let s2 = prim(&mut sc, format!("prim {res} dh {d} {} {}", hex(&bb), hex(&pa)));
                if s1 != s2 || !s1.starts_with("ok ") {
                    sc.viol("C18", format!("{res} {d}: DH does not commute: {s1} / {s2}"));
                }
                pubs.push(pa);
            }
            // one Dh object, two keys in a row (set then generate, generate then set)
            if let Some(p) = pubs.first() {
                for _ in 0..3 {
                    let (k1, k2) = (r.bytes(32), r.bytes(32));
                    prim(&mut sc, format!("prim {res} dhseq {d} {} {} {}", hex(&k1), hex(&k2), hex(p)));
                }
            }
            // edge public keys
            let a = r.bytes(32);
            let plen = pubs.first().map_or(32, Vec::len);
            let mut edges: Vec<Vec<u8>> = vec![vec![0; plen], vec![0xff; plen], {
                let mut v = vec![0; plen];
                v[0] = 1;
                v
            }];
            if let Some(p) = pubs.first() {
                let mut q = p.clone();
                let i = q.len() - 1;
                q[i] ^= 0x80;
                edges.push(q.clone());
                q[0] ^= 1;
                edges.push(q);
            }
            for e in edges {
                prim(&mut sc, format!("prim {res} dh {d} {} {}", hex(&a), hex(&e)));
            }
            // private-key edge cases (P-256: outside [1, n-1] panics in the unchanged crate: known finding)
            if d != "P256" {
                for k in [vec![0u8; 32], vec![0xffu8; 32]] {
                    prim(&mut sc, format!("prim {res} pub {d} {}", hex(&k)));
                }
            }
            run.add("prim", format!("{res} {d}"), sc);
        }
    }
    // one random source, many draws: no block of output may repeat (implementation only, OS randomness)
    if !light {
        let mut sc = Sc::new();
        sc.ex.comment("one resolver RNG object, many draws (implementation only)");
        for res in ["default", "ring", "fb(ring,default)", "fb(none,default)"] {
            if !crate::gen::FULL && res.contains("ring") {
                continue;
            }
            let Some(rr) = resolver_from_expr(res) else { continue };
            let Some(mut rng) = rr.resolve_rng() else { continue };
            let mut seen: Vec<Vec<u8>> = vec![];
            let sizes = [32usize, 32, 32, 32, 32, 32, 32, 32, 32, 32, 16, 16, 64, 8, 32, 32, 24, 40, 32, 32, 32, 32, 32, 32, 32, 32, 32, 32, 32, 32, 32, 32, 32, 32, 32, 32, 32, 32, 32, 32];
            let mut bad = false;
            for (i, n) in sizes.iter().cycle().take(if thorough { 400 } else { 120 }).enumerate() {
                let mut buf = vec![0u8; *n];
                let ok = catch_unwind(AssertUnwindSafe(|| rng.try_fill_bytes(&mut buf).is_ok())).unwrap_or(false);
                if !ok {
                    sc.viol("C10", format!("{res}: the resolver's random source failed or panicked at draw {i}"));
                    break;
                }
                // compare 8-byte windows at the start of every draw of at least 8 bytes
                let w = buf[..8].to_vec();
                if seen.contains(&w) && !bad {
                    sc.viol("C18", format!("{res}: draw {i} of one random source repeats an earlier draw (generated keys would repeat)"));
                    sc.viol("C06", format!("{res}: the random source repeats output (draw {i}): ephemeral keys would repeat"));
                    bad = true;
                }
                seen.push(w);
                sc.count("prim.rng_draw");
            }
            // and through Dh::generate, as Builder::generate_keypair and the handshake do
            if let Some(mut dh) = rr.resolve_dh(&snow::params::DHChoice::Curve25519) {
                let mut keys: Vec<Vec<u8>> = vec![];
                for i in 0..24 {
                    dh.generate(&mut *rng);
                    let k = dh.privkey().to_vec();
                    if keys.contains(&k) {
                        sc.viol("C18", format!("{res}: key pair {i} generated from one random source repeats an earlier one"));
                        break;
                    }
                    keys.push(k);
                }
            }
        }
        run.add("keygen", "one random source, many draws".into(), sc);
    }
    // generated key pairs: consistent and distinct (implementation only, OS randomness)
    if !light {
        let mut sc = Sc::new();
        sc.ex.comment("generate_keypair: consistent and distinct (OS randomness; implementation only)");
        for name in ["Noise_NN_25519_ChaChaPoly_SHA256", "Noise_NN_P256_ChaChaPoly_SHA256"] {
            if !crate::gen::FULL && name.contains("P256") {
                continue;
            }
            let mut seen: Vec<Vec<u8>> = vec![];
            for _ in 0..(if thorough { 200 } else { 30 }) {
                let b = snow::Builder::new(name.parse().unwrap());
                match catch_unwind(AssertUnwindSafe(|| b.generate_keypair())) {
                    Ok(Ok(kp)) => {
                        let dhn = name.split('_').nth(2).unwrap();
                        let expect = crate::gen::pub_of("default", dhn, &kp.private);
                        if expect.as_deref() != Some(kp.public.as_slice()) {
                            sc.viol("C18", format!("{name}: generated key pair is inconsistent"));
                        }
                        if seen.contains(&kp.private) {
                            sc.viol("C18", format!("{name}: generated the same private key twice"));
                        }
                        seen.push(kp.private);
                        sc.count("prim.keygen");
                    },
                    Ok(Err(e)) => sc.viol("C18", format!("{name}: generate_keypair failed: {e:?}")),
                    Err(_) => sc.viol("C10", format!("{name}: generate_keypair panicked")),
                }
            }
        }
        run.add("keygen", "generate_keypair".into(), sc);
    }
}
