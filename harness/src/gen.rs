//! Scenario generators and implementation oracles.  Every scenario is a self-contained
//! operation script (its own sessions) executed on the real crate while it is generated.

use crate::{
    exec::{hex, BuildSpec, Exec, Out, FILL},
    toy::{resolver_from_expr, Ev},
    util::*,
};
use std::collections::BTreeMap;

pub struct Viol {
    pub prop: String,
    pub scenario: usize,
    pub what: String,
}

pub struct Scenario {
    pub id: usize,
    pub component: String,
    pub title: String,
    pub ops: Vec<String>,
    pub res: Vec<String>,
}

#[derive(Default)]
pub struct Run {
    pub scenarios: Vec<Scenario>,
    pub viols: Vec<Viol>,
    pub stats: BTreeMap<String, u64>,
    pub samples: Vec<String>,
}

/// One scenario under construction.
pub struct Sc {
    pub ex: Exec,
    pub viols: Vec<(String, String)>,
    pub stats: BTreeMap<String, u64>,
    /// the two split keys of the last pair built by `quick_pair` (initiator's sending key, responder's sending key)
    pub raw_keys: Option<([u8; 32], [u8; 32])>,
}

impl Sc {
    pub fn new() -> Self {
        Sc { ex: Exec::new(), viols: Vec::new(), stats: BTreeMap::new(), raw_keys: None }
    }
    pub fn viol(&mut self, prop: &str, what: String) {
        self.viols.push((prop.to_string(), what));
    }
    pub fn count(&mut self, key: &str) {
        *self.stats.entry(key.to_string()).or_insert(0) += 1;
    }
    /// Every panic is a C10 violation.
    pub fn check_panic(&mut self, o: &Out, what: &str) {
        if *o == Out::Panic {
            self.viol("C10", format!("panic in {what}"));
        }
    }
}

impl Run {
    pub fn add(&mut self, component: &str, title: String, sc: Sc) {
        let id = self.scenarios.len();
        for (p, w) in sc.viols {
            self.viols.push(Viol { prop: p, scenario: id, what: w });
        }
        for (k, v) in sc.stats {
            *self.stats.entry(k).or_insert(0) += v;
        }
        *self.stats.entry(format!("scenarios.{component}")).or_insert(0) += 1;
        *self.stats.entry("ops".into()).or_insert(0) += sc.ex.ops.len() as u64;
        if self.samples.len() < 6 && sc.ex.ops.len() > 1 && id % 7 == 0 {
            let k = sc.ex.ops.len().min(4);
            let shorten = |s: &String| if s.len() > 160 { format!("{}...", &s[..160]) } else { s.clone() };
            self.samples.push(format!(
                "[{component}] {title}: {}",
                (0..k).map(|i| format!("{} => {}", shorten(&sc.ex.ops[i]), shorten(&sc.ex.res[i]))).collect::<Vec<_>>().join(" ; ")
            ));
        }
        self.scenarios.push(Scenario { id, component: component.into(), title, ops: sc.ex.ops, res: sc.ex.res });
    }
}

// ------------------------------------------------------------------ suites

pub const DHS: [&str; 3] = ["25519", "448", "P256"];
pub const CIPHERS: [&str; 3] = ["ChaChaPoly", "XChaChaPoly", "AESGCM"];
pub const HASHES: [&str; 4] = ["SHA256", "SHA512", "BLAKE2s", "BLAKE2b"];

pub fn dh_choice_of_name(dh: &str) -> Option<snow::params::DHChoice> {
    match dh {
        "25519" => Some(snow::params::DHChoice::Curve25519),
        "448" => Some(snow::params::DHChoice::Curve448),
        #[cfg(feature = "full")]
        _ => Some(snow::params::DHChoice::P256),
        #[cfg(not(feature = "full"))]
        _ => None,
    }
}

/// Public key of `privk` through the resolver's own `Dh` (public trait).
pub fn pub_of(resolver: &str, dh: &str, privk: &[u8]) -> Option<Vec<u8>> {
    let r = resolver_from_expr(resolver)?;
    let mut d = r.resolve_dh(&dh_choice_of_name(dh)?)?;
    let privk = privk.to_vec();
    std::panic::catch_unwind(std::panic::AssertUnwindSafe(move || {
        d.set(&privk);
        d.pubkey().to_vec()
    }))
    .ok()
}

pub fn pub_len_of(resolver: &str, dh: &str) -> Option<usize> {
    let r = resolver_from_expr(resolver)?;
    Some(r.resolve_dh(&dh_choice_of_name(dh)?)?.pub_len())
}

// ------------------------------------------------------------------ handshake scenarios

#[derive(Clone, Debug, PartialEq)]
pub enum Tamper {
    /// flip bit `bit` of byte at `pos` (pos relative to the message; clamped)
    Flip { field: usize, at_end: bool },
    Truncate(usize),
    Extend(usize),
    /// replace by the previous message of this session (if any) or zeros
    Replay,
    /// random bytes of the same length
    Garbage,
}

#[derive(Clone, Debug, PartialEq)]
pub enum Fault {
    /// writer: output capacity = exact length - delta (delta >= 1)
    WriteCapShort(usize),
    /// writer: capacity chosen to end inside field `i` (0-based) of the message
    WriteCapInField(usize),
    /// writer: payload that makes the message one byte longer than 65535
    WriteOversize,
    /// reader: tampered delivery first
    ReadTamper(Tamper),
    /// reader: payload buffer too small by `delta`
    ReadCapShort(usize),
    /// reader: a 65536-byte message
    ReadOversize,
    /// the party whose turn it is NOT tries to write; the writer tries to read
    OutOfTurn,
    /// the psk needed in this message is missing at first, then set with set_psk
    MissingPsk,
}

#[derive(Clone, Debug)]
pub struct HsCfg {
    pub pattern: String,
    pub psks: Vec<u8>,
    pub dh: String,
    pub cipher: String,
    pub hash: String,
    pub res_i: String,
    pub res_r: String,
    pub fixed_e: bool,
    pub prologue: Option<Vec<u8>>,
    pub payload_lens: Vec<usize>,
    pub faults: Vec<(usize, Fault)>,
    pub stateless: bool,
    pub transport_msgs: usize,
    pub query_each_step: bool,
    /// supply, to a party whose pattern does not pre-share the peer's static key, a remote static that is NOT the
    /// peer's (snow accepts a superfluous `remote_public_key`): it must be reported until the message carrying the
    /// real one has been read successfully, and a failed read must not replace it
    pub wrong_rs: bool,
    /// how the psks reach the two handshake states: 0 = `Builder::psk` (both), 1 = `HandshakeState::set_psk` right
    /// after build (both; the builder gets none), 2 = initiator late / responder builder, 3 = the other way round
    pub psk_via: u8,
    /// additionally supply, through the builder, a psk in a slot no token of the instance uses (snow accepts it;
    /// it must not influence a single byte)
    pub extra_psk: bool,
    /// `NoiseParams.name` replaced by this free-form string on both sides (the choices stay those of `name()`)
    pub alias: Option<String>,
    /// `NoiseParams.handshake.modifiers.list` replaced after parsing by this hand-built list (same modifiers as the
    /// name's, possibly in another order): the tokens come from the list, the hashed name stays the name
    pub hand_mods: Option<String>,
    pub seed: u64,
}

/// The second harness binary is built against snow with default features only (no P-256, no XChaChaPoly, no ring
/// backend): scenario configurations that name one of those are mapped to a supported neighbour there, so that the
/// same generators exercise the default build (the build the baseline suite tests). The parser and builder
/// generators are NOT mapped: there the rejection of those names is what is compared with the model.
pub const FULL: bool = cfg!(feature = "full");
pub fn adapt_dh(dh: &str) -> String {
    if !FULL && dh == "P256" { "25519".into() } else { dh.into() }
}
pub fn adapt_cipher(c: &str) -> String {
    if !FULL && c == "XChaChaPoly" { "AESGCM".into() } else { c.into() }
}
pub fn adapt_res(e: &str) -> String {
    if FULL { e.into() } else { e.replace("ring", "default") }
}
pub fn adapt_name(n: &str) -> String {
    if FULL { n.into() } else { n.replace("_P256_", "_25519_").replace("_XChaChaPoly_", "_AESGCM_") }
}

impl HsCfg {
    pub fn adapted(&self) -> HsCfg {
        let mut c = self.clone();
        c.dh = adapt_dh(&c.dh);
        c.cipher = adapt_cipher(&c.cipher);
        c.res_i = adapt_res(&c.res_i);
        c.res_r = adapt_res(&c.res_r);
        c
    }
    pub fn name(&self) -> String {
        format!("Noise_{}{}_{}_{}_{}", self.pattern, mods_suffix(&self.psks), self.dh, self.cipher, self.hash)
    }
}

#[derive(Default, Clone)]
pub struct HsTrace {
    pub built: bool,
    pub msgs: Vec<Vec<u8>>,
    pub hh: Option<(Vec<u8>, Vec<u8>)>,
    pub finished: bool,
    pub transport: Vec<Vec<u8>>,
    pub enc_events: Vec<(Vec<u8>, u64, Vec<u8>, Vec<u8>)>,
}

struct Keys {
    s_i: Vec<u8>,
    s_r: Vec<u8>,
    e_i: Vec<u8>,
    e_r: Vec<u8>,
    pub_i: Vec<u8>,
    pub_r: Vec<u8>,
    pub_x: Vec<u8>,
    psk: Vec<Vec<u8>>,
    rng_i: Vec<u8>,
    rng_r: Vec<u8>,
}

fn make_keys(cfg: &HsCfg) -> Option<Keys> {
    let mut r = Rng64(cfg.seed ^ 0x6b657973);
    let mut s_i = r.bytes(32);
    let mut s_r = r.bytes(32);
    let e_i = r.bytes(32);
    let e_r = r.bytes(32);
    // in a fifth of the configurations: static keys whose PUBLIC key ends in a zero byte (or starts with one, for
    // 32-byte keys): a reported key whose length is inferred from its contents comes out short (found by search)
    if cfg.seed % 5 == 0 {
        for sk in [&mut s_i, &mut s_r] {
            let mut sr = Rng64(cfg.seed ^ 0x7a65726f);
            for _ in 0..3000 {
                let cand = sr.bytes(32);
                if let Some(p) = pub_of(&cfg.res_i, &cfg.dh, &cand) {
                    if p.last() == Some(&0) || (p.len() == 32 && p[0] == 0 && cfg.seed % 10 == 0) {
                        *sk = cand;
                        break;
                    }
                } else {
                    break;
                }
            }
            let _ = sr.next();
        }
    }
    let pub_i = pub_of(&cfg.res_i, &cfg.dh, &s_i)?;
    let pub_r = pub_of(&cfg.res_r, &cfg.dh, &s_r)?;
    let pub_x = pub_of(&cfg.res_r, &cfg.dh, &[0x42u8; 32])?;
    // psk values: mostly random; in some configurations the all-zero or the all-0xff key, or the same key in every slot
    // (a value is a value: "supplied" must not be inferred from the bytes)
    let psk_style = cfg.seed % 11;
    let shared = r.bytes(32);
    let psk = (0..10)
        .map(|i| match (psk_style, i % 3) {
            (0, _) | (1, 0) => vec![0u8; 32],
            (2, 1) => vec![0xffu8; 32],
            (3, _) => shared.clone(),
            _ => r.bytes(32),
        })
        .collect();
    Some(Keys { s_i, s_r, e_i, e_r, pub_i, pub_r, pub_x, psk, rng_i: r.bytes(640), rng_r: r.bytes(640) })
}

fn record_encs(tr: &mut HsTrace, evs: &[Ev]) {
    for e in evs {
        if let Ev::Enc { key, n, ad, pt } = e {
            tr.enc_events.push((key.clone(), *n, ad.clone(), pt.clone()));
        }
    }
}

fn tamper_msg(msg: &[u8], t: &Tamper, fields: &[Field], pub_len: usize, payload_len: usize, prev: Option<&Vec<u8>>, r: &mut Rng64) -> Vec<u8> {
    let mut m = msg.to_vec();
    match t {
        Tamper::Flip { field, at_end } => {
            // locate field
            let mut off = 0;
            let fi = (*field).min(fields.len() - 1);
            for f in &fields[..fi] {
                off += field_len(f, pub_len, payload_len);
            }
            let flen = field_len(&fields[fi], pub_len, payload_len);
            if m.is_empty() {
                m.push(1);
            } else if flen == 0 {
                let p = off.min(m.len() - 1);
                m[p] ^= 1;
            } else {
                let p = if *at_end { off + flen - 1 } else { off + r.below(flen) };
                let p = p.min(m.len() - 1);
                m[p] ^= 1 << r.below(8);
            }
        },
        Tamper::Truncate(n) => {
            let n = (*n).min(m.len());
            m.truncate(m.len() - n);
        },
        Tamper::Extend(n) => m.extend(r.bytes(*n)),
        Tamper::Replay => {
            m = match prev {
                Some(p) if *p != m => p.clone(),
                _ => vec![0u8; msg.len()],
            }
        },
        Tamper::Garbage => {
            m = r.bytes(msg.len().max(1));
        },
    }
    if m == msg {
        m.push(0x42);
    }
    m
}

/// Does the alteration first touch an encrypted field (or the total length while the
/// payload is encrypted)?  Then the reading call itself must reject (C03, second sentence).
fn tamper_hits_encrypted(orig: &[u8], alt: &[u8], fields: &[Field], pub_len: usize, payload_len: usize) -> bool {
    let first = orig.iter().zip(alt.iter()).position(|(a, b)| a != b).unwrap_or(orig.len().min(alt.len()));
    let mut off = 0;
    for f in fields {
        let l = field_len(f, pub_len, payload_len);
        let enc = matches!(f, Field::S { enc: true } | Field::Payload { enc: true });
        let is_last = matches!(f, Field::Payload { .. });
        if first < off + l || is_last {
            return enc;
        }
        off += l;
    }
    false
}

/// Run one handshake scenario; evaluates the implementation oracles along the way.
#[allow(clippy::too_many_lines)]
pub fn run_hs(cfg: &HsCfg, sc: &mut Sc) -> HsTrace {
    let cfg = &cfg.adapted();
    let mut tr = HsTrace::default();
    let name = cfg.name();
    sc.ex.comment(&format!("hs {} res_i={} res_r={} fixed_e={} faults={:?}", name, cfg.res_i, cfg.res_r, cfg.fixed_e, cfg.faults));
    let Some(inst) = inst_of(&cfg.pattern, &cfg.psks) else {
        sc.ex.comment("no token instance");
        return tr;
    };
    let Some(keys) = make_keys(cfg) else {
        sc.ex.comment("no dh for this suite");
        return tr;
    };
    let is_psk = !cfg.psks.is_empty();
    let lay = layout(&inst, is_psk);
    let pub_len = pub_len_of(&cfg.res_i, &cfg.dh).unwrap_or(32);
    let mut r = Rng64(cfg.seed);

    // psk slots each side (MissingPsk fault removes the one needed at that message for the reader/writer)
    let missing: Vec<(usize, u8)> = cfg
        .faults
        .iter()
        .filter(|(_, f)| *f == Fault::MissingPsk)
        .filter_map(|(k, _)| {
            inst.msgs.get(*k).and_then(|m| m.iter().find_map(|t| if let Tok::Psk(n) = t { Some((*k, *n)) } else { None }))
        })
        .collect();
    let late = |for_initiator: bool| -> bool { cfg.psk_via == 1 || (cfg.psk_via == 2 && for_initiator) || (cfg.psk_via == 3 && !for_initiator) };
    let unused_slot: Option<u8> = if cfg.extra_psk { (0u8..10).rev().find(|n| !cfg.psks.contains(n)) } else { None };
    let psk_list = |skip: &[(usize, u8)], for_initiator: bool| -> Vec<(u8, Vec<u8>)> {
        let mut v: Vec<(u8, Vec<u8>)> = if late(for_initiator) {
            vec![]
        } else {
            cfg.psks
                .iter()
                .filter(|n| !skip.iter().any(|(_, m)| m == *n))
                .map(|n| (*n, keys.psk[*n as usize].clone()))
                .collect()
        };
        if let Some(u) = unused_slot {
            v.push((u, keys.psk[u as usize].clone()));
        }
        v
    };
    let spec_i = BuildSpec { alias: cfg.alias.clone(), mods: cfg.hand_mods.clone(),
        name: name.clone(),
        initiator: true,
        resolver: cfg.res_i.clone(),
        s: if role_uses_s(&inst, true) { Some(keys.s_i.clone()) } else { None },
        e: if cfg.fixed_e { Some(keys.e_i.clone()) } else { None },
        rs: if role_preknows_rs(&inst, true) { Some(keys.pub_r.clone()) } else if cfg.wrong_rs { Some(keys.pub_x.clone()) } else { None },
        psks: psk_list(&missing, true),
        prologue: cfg.prologue.clone(),
        rng: keys.rng_i.clone(),
    };
    let spec_r = BuildSpec { alias: cfg.alias.clone(), mods: cfg.hand_mods.clone(),
        name: name.clone(),
        initiator: false,
        resolver: cfg.res_r.clone(),
        s: if role_uses_s(&inst, false) { Some(keys.s_r.clone()) } else { None },
        e: if cfg.fixed_e { Some(keys.e_r.clone()) } else { None },
        rs: if role_preknows_rs(&inst, false) { Some(keys.pub_i.clone()) } else if cfg.wrong_rs { Some(keys.pub_x.clone()) } else { None },
        psks: psk_list(&missing, false),
        prologue: cfg.prologue.clone(),
        rng: keys.rng_r.clone(),
    };
    let bi = sc.ex.build(1, &spec_i);
    let br = sc.ex.build(2, &spec_r);
    sc.check_panic(&bi, "build_initiator");
    sc.check_panic(&br, "build_responder");
    if !bi.is_ok() || !br.is_ok() {
        sc.viol("C12", format!("{name}: consistent honest configuration rejected: {bi:?} {br:?}"));
        sc.viol("C02", format!("{name}: honest pair does not build: {bi:?} {br:?}"));
        return tr;
    }
    tr.built = true;
    // psks bound late, through HandshakeState::set_psk (the documented way for psks only known after build)
    for (sid, ini) in [(1u32, true), (2u32, false)] {
        if late(ini) {
            sc.count("hs.psk_set_late");
            for n in cfg.psks.iter().filter(|n| !missing.iter().any(|(_, m)| m == *n)) {
                let o = sc.ex.set_psk(sid, *n as usize, &keys.psk[*n as usize]);
                sc.check_panic(&o, "set_psk");
                if !o.is_ok() {
                    sc.viol("C12", format!("{name}: set_psk({n}) right after build failed: {o:?}"));
                }
            }
        }
    }
    if unused_slot.is_some() {
        sc.count("hs.extra_unused_psk");
    }
    let nmsgs = inst.msgs.len();
    // the remote static each side must report
    let mut s_known_i: Option<Vec<u8>> = if role_preknows_rs(&inst, true) { Some(keys.pub_r.clone()) } else if cfg.wrong_rs { Some(keys.pub_x.clone()) } else { None };
    let mut s_known_r: Option<Vec<u8>> = if role_preknows_rs(&inst, false) { Some(keys.pub_i.clone()) } else if cfg.wrong_rs { Some(keys.pub_x.clone()) } else { None };

    let query_check = |sc: &mut Sc, pos_i: usize, pos_r: usize, s_known_i: &Option<Vec<u8>>, s_known_r: &Option<Vec<u8>>| {
        for (sid, initiator) in [(1u32, true), (2u32, false)] {
            let pos = if initiator { pos_i } else { pos_r };
            if let Some(q) = sc.ex.query(sid) {
                let exp_fin = pos == nmsgs;
                if q.fin != Some(exp_fin) {
                    sc.viol("C11", format!("{name}: sid {sid} finished={:?} after {pos}/{nmsgs} messages", q.fin));
                }
                if pos < nmsgs && q.turn != Some((pos % 2 == 0) == initiator) {
                    sc.viol("C11", format!("{name}: sid {sid} is_my_turn={:?} at position {pos}", q.turn));
                }
                if q.init != initiator {
                    sc.viol("C11", format!("{name}: sid {sid} is_initiator wrong"));
                }
                let known = if initiator { s_known_i } else { s_known_r };
                if &q.rs != known {
                    sc.viol(
                        "C17",
                        format!("{name}: sid {sid} get_remote_static={:?} at position {pos}, expected {:?}", q.rs.as_ref().map(|v| hex(v)), known.as_ref().map(|v| hex(v))),
                    );
                }
            }
        }
    };
    if cfg.query_each_step {
        query_check(sc, 0, 0, &s_known_i, &s_known_r);
        let _ = sc.ex.raw_split(1);
        let _ = sc.ex.raw_split(2);
    }

    for k in 0..nmsgs {
        let (w, rd) = if k % 2 == 0 { (1u32, 2u32) } else { (2u32, 1u32) };
        let fields = &lay[k];
        let mut plen = *cfg.payload_lens.get(k).unwrap_or(&0);
        let overhead = msg_len(fields, pub_len, 0);
        if overhead + plen > 65535 {
            plen = 65535 - overhead;
        }
        // genuine-call parameters come from their own stream so that a fault-free twin run is identical
        let mut pr = Rng64(cfg.seed ^ ((k as u64 + 1) * 0x9e37_79b9));
        let payload = pr.bytes(plen);
        let exact = msg_len(fields, pub_len, plen);
        let faults: Vec<Fault> = cfg.faults.iter().filter(|(i, _)| *i == k).map(|(_, f)| f.clone()).collect();

        // ---- writer-side faults
        for f in &faults {
            match f {
                Fault::OutOfTurn => {
                    sc.count("fault.out_of_turn");
                    let o = sc.ex.hs_write(rd, &payload, exact + 32);
                    sc.check_panic(&o, "hs_write out of turn");
                    if o.err() != Some("State(NotTurnToWrite)") {
                        sc.viol("C11", format!("{name}: write off turn at message {k} gave {o:?}"));
                    }
                    let o = sc.ex.hs_read(w, &r.bytes(exact), 70000);
                    sc.check_panic(&o, "hs_read on own turn");
                    if o.err() != Some("State(NotTurnToRead)") {
                        sc.viol("C11", format!("{name}: read on own turn at message {k} gave {o:?}"));
                    }
                    if cfg.query_each_step {
                        // the rejected calls must not have moved the indicators
                        query_check(sc, k, k, &s_known_i, &s_known_r);
                    }
                },
                Fault::WriteCapShort(d) => {
                    sc.count("fault.write_cap_short");
                    let cap = (exact + 16).saturating_sub(*d + if matches!(fields.last(), Some(Field::Payload { enc: true })) { 0 } else { 0 });
                    // the implementation demands 16 bytes of slack even for clear payloads:
                    // anything below the exact length must fail, the band [exact, exact+16) may.
                    let cap = cap.min(exact.saturating_sub(*d));
                    let o = sc.ex.hs_write(w, &payload, cap);
                    sc.check_panic(&o, "hs_write short buffer");
                    if o.is_ok() {
                        sc.viol("C14", format!("{name}: message {k} of {exact} bytes written into a {cap}-byte buffer"));
                    } else if o.err().is_some() && o.err() != Some("Input") {
                        sc.viol("C14", format!("{name}: short buffer at message {k} gave {o:?}, not Input"));
                    }
                },
                Fault::WriteCapInField(i) => {
                    sc.count("fault.write_cap_in_field");
                    let mut off = 0;
                    let fi = (*i).min(fields.len() - 1);
                    for f in &fields[..fi] {
                        off += field_len(f, pub_len, plen);
                    }
                    let fl = field_len(&fields[fi], pub_len, plen);
                    let cap = if fl == 0 { off.saturating_sub(1) } else { off + r.below(fl) };
                    if cap < exact {
                        let o = sc.ex.hs_write(w, &payload, cap);
                        sc.check_panic(&o, "hs_write buffer ending inside a field");
                        if o.is_ok() {
                            sc.viol("C14", format!("{name}: message {k} of {exact} bytes written into a {cap}-byte buffer"));
                        } else if o.err().is_some() && o.err() != Some("Input") {
                            sc.viol("C14", format!("{name}: buffer ending in field {fi} at message {k} gave {o:?}, not Input"));
                        }
                    }
                },
                Fault::WriteOversize => {
                    sc.count("fault.write_oversize");
                    // one to sixteen bytes over the limit, into buffers just past 65535 bytes and generous ones
                    // ... and payloads whose own length is past 65535 and past 65536 (a narrowing of the payload length
                    // would make them look small)
                    let over = [1usize, 1, 2, 15, 16, 1 + overhead, 17 + overhead, 4465 + overhead][r.below(8)];
                    let big = 65535 + over - overhead;
                    let p = r.bytes(big);
                    let wcap = [70000usize + overhead, 65536 + over, 65535 + over, 65535 + over + 15, 65551 + over, 65552 + over, 131070 + overhead][r.below(7)];
                    let o = sc.ex.hs_write(w, &p, wcap);
                    sc.check_panic(&o, "hs_write oversize");
                    if o.err() != Some("Input") {
                        sc.viol("C14", format!("{name}: message {k} of {} bytes into a {wcap}-byte buffer gave {o:?}, not Input", 65535 + over));
                    }
                },
                Fault::MissingPsk => {
                    // writer lacks the psk
                    if missing.iter().any(|(mk, _)| *mk == k) {
                        sc.count("fault.missing_psk_writer");
                        let o = sc.ex.hs_write(w, &payload, exact + 16);
                        sc.check_panic(&o, "hs_write missing psk");
                        if o.err() != Some("State(MissingPsk)") {
                            sc.viol("C12", format!("{name}: write without psk at message {k} gave {o:?}"));
                        }
                        // rejected attempts to set it (wrong length, position out of range) must leave the slot
                        // empty: the message still reports the missing psk, no default key is used
                        for (mk, n) in &missing {
                            if *mk == k {
                                let bad_len = [0usize, 1, 31, 33, 64][r.below(5)];
                                let o = sc.ex.set_psk(w, *n as usize, &keys.psk[*n as usize].iter().cycle().take(bad_len).copied().collect::<Vec<u8>>());
                                sc.check_panic(&o, "set_psk with a wrong length");
                                if o.is_ok() {
                                    sc.viol("C12", format!("{name}: set_psk with a {bad_len}-byte key accepted"));
                                }
                                let bad_pos = [10usize, 10, 11, 255, 256, 10 + r.below(250), usize::MAX][r.below(7)];
                                let o = sc.ex.set_psk(w, bad_pos, &keys.psk[*n as usize]);
                                sc.check_panic(&o, "set_psk out of range");
                                let o = sc.ex.hs_write(w, &payload, exact + 16);
                                sc.check_panic(&o, "hs_write missing psk (after a rejected set_psk)");
                                if o.err() != Some("State(MissingPsk)") {
                                    sc.viol("C12", format!("{name}: after a rejected set_psk({n}, {bad_len} bytes) the write at message {k} gave {o:?}, not MissingPsk"));
                                }
                            }
                        }
                        for (mk, n) in &missing {
                            if *mk == k {
                                let o = sc.ex.set_psk(w, *n as usize, &keys.psk[*n as usize]);
                                sc.check_panic(&o, "set_psk");
                            }
                        }
                    }
                },
                _ => {},
            }
        }

        // ---- the genuine write
        let slack = [16usize, 16, 17, 100, 1000][pr.below(5)];
        let o = sc.ex.hs_write(w, &payload, exact + slack);
        sc.check_panic(&o, "hs_write");
        record_encs(&mut tr, &sc.ex.last_events.clone());
        let Some(msg) = o.bytes().map(<[u8]>::to_vec) else {
            sc.viol("C02", format!("{name}: honest write of message {k} failed: {o:?}"));
            if !faults.is_empty() {
                sc.viol("C07", format!("{name}: write of message {k} fails after an earlier failed call: {o:?}"));
            }
            if cfg.faults.iter().any(|(i, f)| *i <= k && *f == Fault::OutOfTurn) {
                sc.viol("C11", format!("{name}: a rejected out-of-phase call had an effect: the genuine write of message {k} now fails: {o:?}"));
            }
            return tr;
        };
        if msg.len() != exact {
            sc.viol("C14", format!("{name}: message {k} has {} bytes, specification says {exact}", msg.len()));
        }
        if msg.len() > 65535 {
            sc.viol("C14", format!("{name}: message {k} longer than 65535"));
        }
        // beyond the returned length the buffer must be untouched
        if sc.ex.last_buf[msg.len()..].iter().any(|b| *b != FILL) {
            sc.viol("C14", format!("{name}: message {k}: bytes written beyond the returned length"));
        }
        if let Some(q) = if cfg.query_each_step { sc.ex.query(w) } else { None } {
            let exp_enc = matches!(fields.last(), Some(Field::Payload { enc: true }));
            if q.enc != Some(exp_enc) {
                sc.viol("C01", format!("{name}: was_write_payload_encrypted={:?} after message {k}, specification says {exp_enc}", q.enc));
            }
        }

        // ---- reader-side faults
        for f in &faults {
            match f {
                Fault::ReadTamper(t) => {
                    sc.count("fault.read_tamper");
                    let alt = tamper_msg(&msg, t, fields, pub_len, plen, tr.msgs.last(), &mut r);
                    // the payload buffer the altered message is read into: generous, exactly the genuine payload's size,
                    // a few bytes more, the altered message's size (an implementation that cuts the input to fit the
                    // buffer would drop appended bytes exactly when the buffer is tight)
                    let tcap = [70000usize, plen, 70000, plen + 1, plen + 15, plen + 16, alt.len(), plen, 0, 0][r.below(10)];
                    let o = sc.ex.hs_read(rd, &alt, tcap);
                    sc.check_panic(&o, "hs_read tampered");
                    let hits_enc = tamper_hits_encrypted(&msg, &alt, fields, pub_len, plen);
                    if hits_enc {
                        sc.count("tamper.encrypted_field");
                        if o.is_ok() {
                            sc.viol("C03", format!("{name}: altered encrypted field of message {k} accepted ({t:?})"));
                        }
                    } else {
                        sc.count("tamper.clear_field");
                    }
                    if o.is_ok() {
                        // accepted cleartext alteration: this run has diverged; the continuation is checked by
                        // the dedicated scenario `run_tamper_continue`. Stop here.
                        sc.count("tamper.accepted_clear");
                        return tr;
                    }
                    // C19: nothing decrypted from the rejected message may be in the caller's buffer: neither
                    // the payload nor the sender's static key when the message carries it encrypted
                    if fields.iter().any(|f| matches!(f, Field::S { enc: true })) {
                        let spub = if k % 2 == 0 { &keys.pub_i } else { &keys.pub_r };
                        if sc.ex.last_buf.windows(spub.len()).any(|w| w == spub.as_slice()) {
                            sc.viol("C19", format!("{name}: rejected message {k} left the sender's decrypted static key in the payload buffer"));
                        }
                    }
                    if alt.len() >= 16 && plen >= 16 {
                        // C19: rejected => plaintext payload must not be in the buffer
                        let buf = sc.ex.last_buf.clone();
                        if buf.windows(plen).any(|w| w == payload.as_slice()) {
                            sc.viol("C19", format!("{name}: rejected message {k} left the plaintext in the payload buffer"));
                        }
                    }
                },
                Fault::ReadCapShort(d) => {
                    if plen >= *d && *d > 0 {
                        sc.count("fault.read_cap_short");
                        let o = sc.ex.hs_read(rd, &msg, plen - d);
                        sc.check_panic(&o, "hs_read short payload buffer");
                        if o.is_ok() {
                            sc.viol("C14", format!("{name}: {plen}-byte payload read into a {}-byte buffer", plen - d));
                        }
                    }
                },
                Fault::ReadOversize => {
                    sc.count("fault.read_oversize");
                    let mut big = msg.clone();
                    big.resize(65536, 0);
                    let o = sc.ex.hs_read(rd, &big, 70000);
                    sc.check_panic(&o, "hs_read oversize");
                    if !o.is_err() {
                        sc.viol("C14", format!("{name}: 65536-byte message {k} gave {o:?}"));
                    }
                },
                Fault::MissingPsk => {
                    if missing.iter().any(|(mk, _)| *mk == k) {
                        sc.count("fault.missing_psk_reader");
                        let o = sc.ex.hs_read(rd, &msg, 70000);
                        sc.check_panic(&o, "hs_read missing psk");
                        if o.err() != Some("State(MissingPsk)") {
                            sc.viol("C12", format!("{name}: read without psk at message {k} gave {o:?}"));
                        }
                        for (mk, n) in &missing {
                            if *mk == k {
                                let bad_len = [0usize, 1, 31, 33, 64][r.below(5)];
                                let o = sc.ex.set_psk(rd, *n as usize, &keys.psk[*n as usize].iter().cycle().take(bad_len).copied().collect::<Vec<u8>>());
                                sc.check_panic(&o, "set_psk with a wrong length");
                                if o.is_ok() {
                                    sc.viol("C12", format!("{name}: set_psk with a {bad_len}-byte key accepted"));
                                }
                                let o = sc.ex.hs_read(rd, &msg, 70000);
                                sc.check_panic(&o, "hs_read missing psk (after a rejected set_psk)");
                                if o.err() != Some("State(MissingPsk)") {
                                    sc.viol("C12", format!("{name}: after a rejected set_psk({n}, {bad_len} bytes) the read of message {k} gave {o:?}, not MissingPsk"));
                                }
                            }
                        }
                        for (mk, n) in &missing {
                            if *mk == k {
                                let o = sc.ex.set_psk(rd, *n as usize, &keys.psk[*n as usize]);
                                sc.check_panic(&o, "set_psk");
                            }
                        }
                    }
                },
                _ => {},
            }
            if cfg.query_each_step && !matches!(f, Fault::OutOfTurn) {
                // a failed call must not change the indicators (C07/C11/C17)
                let (pi, pr) = if k % 2 == 0 { (k + 1, k) } else { (k, k + 1) };
                query_check(sc, pi, pr, &s_known_i, &s_known_r);
            }
        }

        // ---- after a read of the GENUINE message failed for a reason of the reader's own (payload buffer too small, psk
        // not yet set), a same-length ALTERED message must still be rejected: a retry must not be recognised by part
        // of the message only (seeded round 6, C03-I / C03-J: "resume" caches keyed on position, length, ephemeral)
        let reader_failed = faults.iter().any(|f| matches!(f, Fault::ReadCapShort(d) if plen >= *d && *d > 0))
            || (faults.iter().any(|f| matches!(f, Fault::MissingPsk)) && missing.iter().any(|(mk, _)| *mk == k));
        if reader_failed && matches!(fields.last(), Some(Field::Payload { enc: true })) && !msg.is_empty() {
            for _ in 0..2 {
                let mut alt = msg.clone();
                let i = r.below(alt.len());
                alt[i] ^= 1 << r.below(8);
                sc.count("fault.altered_after_failed_read");
                let o = sc.ex.hs_read(rd, &alt, 70000);
                sc.check_panic(&o, "hs_read altered after a failed read");
                if o.is_ok() {
                    sc.viol("C03", format!("{name}: after a failed read of the genuine message {k}, the same message with byte {i} altered was accepted"));
                    return tr;
                }
            }
        }

        // ---- genuine delivery
        let cap = plen + [0usize, 0, 1, 16, 1000][pr.below(5)];
        let o = sc.ex.hs_read(rd, &msg, cap);
        sc.check_panic(&o, "hs_read");
        match o.bytes() {
            Some(p) if p == payload.as_slice() => {},
            Some(_) => sc.viol("C02", format!("{name}: payload of message {k} altered in delivery")),
            None => {
                sc.viol("C02", format!("{name}: honest read of message {k} failed: {o:?}"));
                if plen >= 16 && sc.ex.last_buf.windows(plen).any(|w| w == payload.as_slice()) {
                    sc.viol("C19", format!("{name}: read of message {k} returned {o:?} but left the decrypted payload in the caller's buffer"));
                }
                if !faults.is_empty() {
                    sc.viol("C07", format!("{name}: genuine message {k} rejected after an earlier failed call: {o:?}"));
                }
                if cfg.faults.iter().any(|(i, f)| *i <= k && *f == Fault::OutOfTurn) {
                    sc.viol("C11", format!("{name}: a rejected out-of-phase call had an effect: the genuine message {k} is now rejected: {o:?}"));
                }
                return tr;
            },
        }
        tr.msgs.push(msg);
        if inst.msgs[k].contains(&Tok::S) {
            if k % 2 == 0 {
                s_known_r = Some(keys.pub_i.clone());
            } else {
                s_known_i = Some(keys.pub_r.clone());
            }
        }
        if cfg.query_each_step {
            query_check(sc, k + 1, k + 1, &s_known_i, &s_known_r);
        }
        if cfg.query_each_step || cfg.seed % 2 == 0 {
            // callable at any time; must not disturb the session (the rest of the run is compared with the model)
            let _ = sc.ex.raw_split(if k % 2 == 0 { 1 } else { 2 });
            if cfg.seed % 4 == 0 {
                let _ = sc.ex.raw_split(if k % 2 == 0 { 2 } else { 1 });
            }
        }
    }

    // ---- end of handshake
    let qi = sc.ex.query(1);
    let qr = sc.ex.query(2);
    if let (Some(qi), Some(qr)) = (qi, qr) {
        if qi.fin != Some(true) || qr.fin != Some(true) {
            sc.viol("C02", format!("{name}: not finished after {nmsgs} messages"));
        }
        if qi.hh != qr.hh {
            sc.viol("C02", format!("{name}: handshake hashes differ"));
        }
        if let (Some(a), Some(b)) = (qi.hh, qr.hh) {
            tr.hh = Some((a, b));
        }
    }
    tr.finished = true;
    // extra calls after the end
    if cfg.faults.iter().any(|(_, f)| *f == Fault::OutOfTurn) {
        for sid in [1u32, 2] {
            let o = sc.ex.hs_write(sid, b"x", 100);
            sc.check_panic(&o, "hs_write after finish");
            if !matches!(o.err(), Some("State(HandshakeAlreadyFinished)") | Some("State(NotTurnToWrite)")) {
                sc.viol("C11", format!("{name}: write after the last message gave {o:?}"));
            }
            let o = sc.ex.hs_read(sid, &[0u8; 48], 100);
            sc.check_panic(&o, "hs_read after finish");
            if !matches!(o.err(), Some("State(HandshakeAlreadyFinished)") | Some("State(NotTurnToRead)")) {
                sc.viol("C11", format!("{name}: read after the last message gave {o:?}"));
            }
        }
    }
    let oneway = nmsgs == 1;
    // dangerously_get_raw_split on the finished handshake: both sides return the same pair, and it is the pair of
    // keys the transport cipher states use (checked below against the recording cipher)
    let raw_i = sc.ex.raw_split(1);
    let raw_r = sc.ex.raw_split(2);
    if raw_i.is_none() || raw_r.is_none() {
        sc.viol("C10", format!("{name}: dangerously_get_raw_split panicked"));
    } else if raw_i != raw_r {
        sc.viol("C02", format!("{name}: the two sides' raw splits differ after an honest handshake"));
    }
    let ci = sc.ex.convert(1, cfg.stateless);
    let cr = sc.ex.convert(2, cfg.stateless);
    sc.check_panic(&ci, "convert");
    sc.check_panic(&cr, "convert");
    if !ci.is_ok() || !cr.is_ok() {
        sc.viol("C02", format!("{name}: conversion failed: {ci:?} {cr:?}"));
        return tr;
    }
    // remote static after conversion (C17)
    for (sid, known) in [(1u32, &s_known_i), (2u32, &s_known_r)] {
        if let Some(q) = sc.ex.query(sid) {
            if &q.rs != known {
                sc.viol("C17", format!("{name}: sid {sid} get_remote_static after conversion = {:?}", q.rs.as_ref().map(|v| hex(v))));
            }
        }
    }
    // ---- transport traffic
    let mut r = Rng64(cfg.seed ^ 0x7472_6166);
    let mut n_i2r = 0u64;
    let mut n_r2i = 0u64;
    for j in 0..cfg.transport_msgs {
        let from_i = oneway || r.chance(1, 2);
        let (w, rd) = if from_i { (1u32, 2u32) } else { (2u32, 1u32) };
        let plen = [0usize, 1, 15, 16, 17, 100, 1000][r.below(7)];
        let p = r.bytes(plen);
        let nonce = if from_i { n_i2r } else { n_r2i };
        let o = if cfg.stateless { sc.ex.st_write(w, nonce, &p, plen + 16) } else { sc.ex.t_write(w, &p, plen + 16) };
        sc.check_panic(&o, "transport write");
        record_encs(&mut tr, &sc.ex.last_events.clone());
        if let Some((k1, k2)) = &raw_i {
            for e in &sc.ex.last_events.clone() {
                if let Ev::Enc { key, .. } = e {
                    let exp = if from_i { k1 } else { k2 };
                    if key != exp {
                        sc.viol("C01", format!("{name}: transport write {j} ({}) encrypts under a key that is not the corresponding half of the raw split", if from_i { "initiator" } else { "responder" }));
                    }
                }
            }
        }
        let Some(m) = o.bytes().map(<[u8]>::to_vec) else {
            sc.viol("C02", format!("{name}: transport write {j} failed: {o:?}"));
            return tr;
        };
        if m.len() != plen + 16 {
            sc.viol("C14", format!("{name}: transport message of {} bytes for a {plen}-byte payload", m.len()));
        }
        let o = if cfg.stateless { sc.ex.st_read(rd, nonce, &m, plen) } else { sc.ex.t_read(rd, &m, plen) };
        sc.check_panic(&o, "transport read");
        if o.bytes() != Some(p.as_slice()) {
            sc.viol("C02", format!("{name}: transport message {j} not delivered intact: {o:?}"));
        }
        if from_i {
            n_i2r += 1;
        } else {
            n_r2i += 1;
        }
        tr.transport.push(m);
    }
    tr
}

/// C06 oracle over the merged encryption log of both endpoints.
pub fn check_nonce_reuse(name: &str, tr: &HsTrace, sc: &mut Sc) {
    let mut seen: BTreeMap<(Vec<u8>, u64), (Vec<u8>, Vec<u8>)> = BTreeMap::new();
    for (k, n, ad, pt) in &tr.enc_events {
        if let Some((ad0, pt0)) = seen.get(&(k.clone(), *n)) {
            if ad0 != ad || pt0 != pt {
                sc.viol("C06", format!("{name}: two different inputs encrypted under key {} nonce {n}", hex(&k[..4])));
            }
        } else {
            seen.insert((k.clone(), *n), (ad.clone(), pt.clone()));
        }
    }
}
