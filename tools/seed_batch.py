#!/usr/bin/env python3
"""seed_batch.py <verif-root> <prop:variant> ... : confirm each seeded change in its scratch worktree, run the
property's check (and the checks of closely related properties) against it with the change applied to /repo,
undo, and record the outcome under <verif-root>/seeded/<prop>-<variant>/."""
import json, os, shutil, subprocess, sys, time
VR = sys.argv[1]
# SEED_ISO=<name>: run the checks in the isolated copy /root/scratch/iso-<name> (tools/iso.sh) instead of /verif + /repo
ISO = os.environ.get("SEED_ISO")
CV = f"/root/scratch/iso-{ISO}/verif" if ISO else VR
CR = f"/root/scratch/iso-{ISO}/repo" if ISO else "/repo"
CENV = dict(os.environ, VERIF_REPO=CR)
RELATED = {"C05": ["C04", "C09", "C07"], "C04": ["C05"], "C09": ["C05"], "C07": ["C03", "C02"], "C15": ["C04"], "C13": [],
           "C20": ["C18"], "C19": ["C18"], "C11": [], "C12": [], "C16": ["C04"], "C14": ["C10"], "C10": ["C14"], "C17": [], "C18": [],
           "C01": ["C02"], "C02": ["C01"], "C03": ["C19"], "C06": ["C07"], "C08": ["C03"]}
def sh(cmd, **kw):
    return subprocess.run(cmd, stdout=subprocess.PIPE, stderr=subprocess.STDOUT, text=True, **kw)
for item in sys.argv[2:]:
    prop, var = item.split(":")
    wt = f"/tmp/mut/{prop}"
    sd = f"{wt}/_seed/{var}"
    out = f"{VR}/seeded/{prop}-{var}"
    os.makedirs(out, exist_ok=True)
    for f in ("patch.diff", "demo.rs", "notes.md"):
        if os.path.exists(f"{sd}/{f}"):
            shutil.copy(f"{sd}/{f}", out)
    t0 = time.time()
    c = sh([f"{VR}/tools/confirm_seed.sh", wt, sd])
    confirmed = "CONFIRMED" in c.stdout.split("\n")[-2:] or c.stdout.strip().endswith("CONFIRMED") and not c.stdout.strip().endswith("NOT-CONFIRMED")
    confirmed = c.stdout.strip().split("\n")[-1] == "CONFIRMED"
    results = {}
    if confirmed:
        st = sh(["git", "-C", CR, "status", "--short"]).stdout.strip()
        if st:
            print("repo not clean, abort", st); sys.exit(2)
        EVBAK = "/root/.evidence_backup"
        shutil.rmtree(EVBAK, ignore_errors=True); shutil.copytree(f"{CV}/evidence", EVBAK)   # evidence must describe the unchanged tree
        a = sh(["git", "-C", CR, "apply", f"{out}/patch.diff"])
        if a.returncode != 0:
            results["apply"] = a.stdout
        else:
            try:
                for p in [prop] + [x for x in RELATED.get(prop, []) if os.path.exists(f"{VR}/lean/SnowVerif/Theorems/{x}.lean")]:
                    r = sh([f"{CV}/check", p, "--tier", "quick"], cwd=CV, env=CENV)
                    lines = [l for l in r.stdout.split("\n") if l.startswith("VIOLATION") or l.startswith("KNOWN") or l.startswith(p + " quick")]
                    results[p] = {"rc": r.returncode, "lines": lines}
                    rp = next((l.split("replay=")[1].split()[0] for l in lines if l.startswith("VIOLATION")), None)
                    if rp and ISO: rp = rp.replace("/verif/", CV + "/", 1) if not rp.startswith(CV) else rp
                    if rp and os.path.exists(rp):
                        shutil.copy(rp, f"{out}/replay-{p}.json")
            finally:
                sh(["git", "-C", CR, "checkout", "--", "."])
                shutil.rmtree(f"{CV}/evidence", ignore_errors=True); shutil.copytree(EVBAK, f"{CV}/evidence")
    meta = {"breaks_property": prop, "variant": var, "confirmed_in_scratch_worktree": confirmed,
            "confirm_output": c.stdout.strip().split("\n")[-2:], "check_results": results,
            "detected_by_own_check": bool(results.get(prop, {}).get("rc")),
            "detected_by": [p for p, v in results.items() if isinstance(v, dict) and v.get("rc")],
            "what_i_ran": [f"tools/confirm_seed.sh {wt} {sd}", f"git -C /repo apply {out}/patch.diff; ./check <prop> --tier quick; git -C /repo checkout -- ."],
            "needs_to_manifest": "see notes.md", "wall_s": round(time.time() - t0)}
    json.dump(meta, open(f"{out}/meta.json", "w"), indent=1)
    print(item, "confirmed" if confirmed else "NOT-CONFIRMED", {p: (v["rc"] if isinstance(v, dict) else v) for p, v in results.items()}, flush=True)
