#!/usr/bin/env python3
"""mutate.py gen <outdir> | run <iso-name> <outdir> <results.json> [k/n]

Automatic first-order mutants of /repo/src as a systematic complement to the hand-made seeded changes: small syntactic
changes (relational / boolean / arithmetic operator swaps, off-by-one on constants, deleted statements, swapped
true/false). `gen` writes one unified diff per mutant. `run` (in an isolated copy made by tools/iso.sh) applies each
mutant to the copy's repo, runs the baseline suite (a mutant the suite kills is not interesting: the checks are for what the
tests cannot settle), and for the survivors runs a panel of quick checks; a survivor that no check reports is either an
equivalent mutant or a gap, and is listed for inspection. Not registered in MANIFEST.json."""
import json, os, re, subprocess, sys, time

FILES = ["handshakestate.rs", "symmetricstate.rs", "cipherstate.rs", "transportstate.rs", "stateless_transportstate.rs",
         "builder.rs", "params/mod.rs", "params/patterns.rs", "resolvers/mod.rs", "resolvers/default.rs", "resolvers/ring.rs",
         "types.rs", "utils.rs"]
PANEL = ["C10", "C12", "C13", "C11", "C14", "C09", "C06", "C19", "C01", "C20", "C17", "C15", "C07", "C02", "C03", "C04", "C05", "C08", "C16", "C18"]

SWAPS = [(r"<=", "<"), (r">=", ">"), (r"(?<![<>=!-])<(?![<=])", "<="), (r"(?<![<>=!-])>(?![>=])", ">="), (r"==", "!="), (r"!=", "=="),
         (r"&&", "||"), (r"\|\|", "&&"), (r"\btrue\b", "false"), (r"\bfalse\b", "true"),
         (r"\+ 1\b", "+ 0"), (r"\+ TAGLEN\b", "+ 0"), (r"- TAGLEN\b", "- 0"), (r"\bTAGLEN\b", "(TAGLEN + 1)"),
         (r"\bMAXMSGLEN\b", "(MAXMSGLEN - 1)"), (r"\bu64::MAX\b", "(u64::MAX - 1)"), (r"\.is_on\(\)", ".is_on() == false"),
         (r"\bis_psk\(\)", "is_psk() == false"), (r"\bself\.initiator\b", "!self.initiator"), (r"\bself\.is_initiator\(\)", "!self.is_initiator()"),
         (r"\.0\b", ".1"), (r"\.1\b", ".0"), (r"\[\.\.(\w+)\]", r"[..\1 - 1]")]
DELETE = re.compile(r"^\s*(self\.[\w.]+\([^;]*\);|self\.[\w.]+ = [^;]*;|[\w.]+\.(enable|disable|reset|input|mix_hash|mix_key|mix_key_and_hash|set|set_nonce|copy_from_slice)\([^;]*\);|\w+ \+= [^;]*;)\s*$")


def code_lines(text):
    """(index, line) of lines that are code outside `#[cfg(test)] mod tests`, hfs-only items and comments."""
    out = []
    in_tests = False
    skip_next = False
    for i, l in enumerate(text.split("\n")):
        st = l.strip()
        if st.startswith("#[cfg(test)]"):
            in_tests = True
        if in_tests:
            continue
        if st.startswith("//") or st.startswith("#[") or st.startswith("use ") or not st:
            if 'feature = "hfs"' in st or "verif-hooks" in st:
                skip_next = True
            continue
        if skip_next:
            skip_next = False
            continue
        out.append((i, l))
    return out


def gen(outdir):
    os.makedirs(outdir, exist_ok=True)
    n = 0
    index = []
    for f in FILES:
        path = os.path.join("/repo/src", f)
        text = open(path).read()
        lines = text.split("\n")
        for i, l in code_lines(text):
            code = l.split("//")[0]
            if "assert" in code or "debug_" in code or "fmt::" in code or "unreachable" in code or "fn " in code and "->" not in code and "(" not in code:
                continue
            muts = []
            for pat, rep in SWAPS:
                for m in re.finditer(pat, code):
                    # skip generics / arrows / lifetimes / shifts
                    ctx = code[max(0, m.start() - 2):m.end() + 2]
                    if "->" in ctx or "=>" in ctx or "<'" in ctx or "::<" in ctx:
                        continue
                    if pat in (r"(?<![<>=!-])<(?![<=])", r"(?<![<>=!-])>(?![>=])") and not re.search(r"\b(if|while|&&|\|\||return|let)\b", code):
                        continue
                    if pat in (r"(?<![<>=!-])<(?![<=])", r"(?<![<>=!-])>(?![>=])") and re.search(r"(Box|Option|Result|Vec|Toggle|Some|impl|dyn|&|\[)\s*<|<\s*(dyn|Box|u8|\[)", code):
                        continue
                    new = code[:m.start()] + m.expand(rep) + code[m.end():] + l[len(code):]
                    muts.append((f"{pat} -> {rep}", new))
            if DELETE.match(code):
                muts.append(("delete statement", re.match(r"^\s*", l).group(0) + "{ }" if code.strip().endswith(";") else l))
            for desc, new in muts:
                if new == l:
                    continue
                nl = list(lines)
                nl[i] = new
                a = f"a/src/{f}"
                diff = subprocess.run(["diff", "-u", "--label", a, "--label", f"b/src/{f}", path, "-"], input="\n".join(nl), stdout=subprocess.PIPE, text=True).stdout
                if not diff:
                    continue
                n += 1
                name = f"m{n:04d}"
                open(os.path.join(outdir, name + ".diff"), "w").write(diff)
                index.append({"id": name, "file": f, "line": i + 1, "op": desc, "old": l.strip(), "new": new.strip()})
    json.dump(index, open(os.path.join(outdir, "index.json"), "w"), indent=1)
    print(n, "mutants")


def run(iso, outdir, results, part):
    D = f"/root/scratch/iso-{iso}"
    V, R = D + "/verif", D + "/repo"
    env = dict(os.environ, VERIF_REPO=R, CARGO_NET_OFFLINE="true")
    index = json.load(open(os.path.join(outdir, "index.json")))
    k, n = (int(x) for x in part.split("/")) if part else (0, 1)
    # a deterministic spread over files: every n-th mutant
    mine = [m for j, m in enumerate(index) if j % n == k]
    res = json.load(open(results)) if os.path.exists(results) else {}
    for m in mine:
        if m["id"] in res:
            continue
        subprocess.run(["git", "-C", R, "checkout", "-q", "--", "."])
        a = subprocess.run(["git", "-C", R, "apply", os.path.join(outdir, m["id"] + ".diff")], stdout=subprocess.PIPE, stderr=subprocess.STDOUT, text=True)
        if a.returncode != 0:
            res[m["id"]] = dict(m, status="does-not-apply")
            continue
        t0 = time.time()
        b = subprocess.run(["cargo", "build", "--offline", "--features", "use-p256,use-xchacha20poly1305,ring-resolver,risky-raw-split,verif-hooks"], cwd=R, env=env, stdout=subprocess.PIPE, stderr=subprocess.STDOUT, text=True)
        if b.returncode != 0:
            res[m["id"]] = dict(m, status="does-not-compile")
        else:
            t = subprocess.run(["cargo", "test", "--workspace", "--no-fail-fast", "--offline"], cwd=R, env=env, stdout=subprocess.PIPE, stderr=subprocess.STDOUT, text=True, timeout=900)
            if t.returncode != 0:
                res[m["id"]] = dict(m, status="killed-by-baseline")
            else:
                caught = []
                for p in PANEL:
                    r = subprocess.run([V + "/check", p, "--tier", "quick"], cwd=V, env=env, stdout=subprocess.PIPE, stderr=subprocess.STDOUT, text=True)
                    if r.returncode != 0:
                        caught.append(p)
                        break
                res[m["id"]] = dict(m, status="caught" if caught else "SURVIVED", caught_by=caught, wall_s=round(time.time() - t0))
        print(m["id"], m["file"], m["line"], res[m["id"]]["status"], res[m["id"]].get("caught_by", ""), flush=True)
        json.dump(res, open(results, "w"), indent=1)
    subprocess.run(["git", "-C", R, "checkout", "-q", "--", "."])


if __name__ == "__main__":
    if sys.argv[1] == "gen":
        gen(sys.argv[2])
    else:
        run(sys.argv[2], sys.argv[3], sys.argv[4], sys.argv[5] if len(sys.argv) > 5 else "")
