#!/bin/bash
# run_seed.sh <prop> <patch> [tier]: apply a seeded change to /repo, run the property's check, undo.
set -u
P=$1; PATCH=$2; TIER=${3:-quick}
cd /repo && git status --short | grep -q . && { echo "/repo not clean"; exit 2; }
git -C /repo apply "$PATCH" || { echo "patch does not apply"; exit 3; }
cd /verif && ./check "$P" --tier "$TIER"; RC=$?
git -C /repo checkout -- .
echo "SEED-RUN prop=$P rc=$RC"
exit 0
