#!/bin/bash
# iso.sh <name>: make an isolated copy of /verif (with its build outputs) and a clone of /repo's HEAD under
# /root/scratch/iso-<name>/ so that long regression runs (all seeded changes, thorough sweeps) do not disturb /repo
# or /verif. Inside, run checks as:  cd /root/scratch/iso-<name>/verif && VERIF_REPO=/root/scratch/iso-<name>/repo ./check Cxx
# Nothing registered in MANIFEST.json uses this; remove the directory when done.
set -eu
N=$1; D=/root/scratch/iso-$N
rm -rf "$D"; mkdir -p "$D"
git clone -q /repo "$D/repo"
rsync -a --exclude work --exclude replays /verif/ "$D/verif/"
sed -i "s#path = \"/repo\"#path = \"$D/repo\"#" "$D/verif/harness/Cargo.toml"
echo "$D"
