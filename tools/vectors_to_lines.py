#!/usr/bin/env python3
"""Convert a Noise test-vector JSON file (cacophony format) into `specvec` lines for the Lean driver.
Only names whose primitives the Lean references implement are kept (25519; P256 has no vectors)."""
import json, re, sys

def hx(s):
    return s if s else "-"

def main():
    vecs = json.load(open(sys.argv[1]))["vectors"]
    out = []
    for v in vecs:
        name = v["protocol_name"]
        m = re.fullmatch(r"Noise_([A-Z0-9]+?)((?:psk\d+|fallback)(?:\+(?:psk\d+|fallback))*)?_(\w+)_(\w+)_(\w+)", name)
        if not m:
            continue
        pat, mods, dh, cipher, hsh = m.group(1), m.group(2) or "", m.group(3), m.group(4), m.group(5)
        if dh not in ("25519", "P256") or "fallback" in mods:
            continue
        g = lambda k: v.get(k) if v.get(k) else "none"
        psks = lambda k: ",".join(v[k]) if v.get(k) else "none"
        msgs = ";".join(f"{hx(x['payload'])}:{hx(x['ciphertext'])}" for x in v["messages"])
        out.append(
            f"specvec pat={pat} mods={mods.replace('+', ',') or '-'} dh={dh} cipher={cipher} hash={hsh} "
            f"name={name.encode().hex()} ipro={hx(v.get('init_prologue',''))} rpro={hx(v.get('resp_prologue',''))} "
            f"is={g('init_static')} ie={g('init_ephemeral')} irs={g('init_remote_static')} "
            f"rs={g('resp_static')} re={g('resp_ephemeral')} rrs={g('resp_remote_static')} "
            f"ipsks={psks('init_psks')} rpsks={psks('resp_psks')} hh={g('handshake_hash')} msgs={msgs}")
    print("\n".join(out))

if __name__ == "__main__":
    main()
