#!/usr/bin/env python3
"""seed_annotate.py <seed-dir-name> <round> [history text]: add round / history to seeded/<name>/meta.json; with
--rerun <prop,...> also re-run those checks against the patch and update check_results/detected_by."""
import json, os, subprocess, sys, shutil
VR = os.path.dirname(os.path.dirname(os.path.abspath(__file__)))
name, rnd = sys.argv[1], int(sys.argv[2])
rest = sys.argv[3:]
rerun = []
if rest and rest[0] == "--rerun":
    rerun = rest[1].split(","); rest = rest[2:]
d = f"{VR}/seeded/{name}"
meta = json.load(open(f"{d}/meta.json"))
meta["round"] = rnd
if rest:
    meta["history"] = " ".join(rest)
if rerun:
    assert not subprocess.run(["git", "-C", "/repo", "status", "--short"], stdout=subprocess.PIPE, text=True).stdout.strip()
    EVBAK = "/root/.evidence_backup"
    shutil.rmtree(EVBAK, ignore_errors=True); shutil.copytree(f"{VR}/evidence", EVBAK)   # evidence must describe the unchanged tree
    subprocess.run(["git", "-C", "/repo", "apply", f"{d}/patch.diff"], check=True)
    try:
        for p in rerun:
            r = subprocess.run([f"{VR}/check", p, "--tier", "quick"], cwd=VR, stdout=subprocess.PIPE, stderr=subprocess.STDOUT, text=True)
            lines = [l for l in r.stdout.split("\n") if l.startswith("VIOLATION") or l.startswith("KNOWN") or l.startswith(p + " quick")]
            meta.setdefault("check_results_first_run", {}).setdefault(p, meta["check_results"].get(p))
            meta["check_results"][p] = {"rc": r.returncode, "lines": lines}
            rp = next((l.split("replay=")[1].split()[0] for l in lines if l.startswith("VIOLATION")), None)
            if rp and os.path.exists(rp):
                shutil.copy(rp, f"{d}/replay-{p}.json")
            print(name, p, r.returncode)
    finally:
        subprocess.run(["git", "-C", "/repo", "checkout", "--", "."])
        shutil.rmtree(f"{VR}/evidence", ignore_errors=True); shutil.copytree(EVBAK, f"{VR}/evidence")
    meta["detected_by"] = [p for p, v in meta["check_results"].items() if isinstance(v, dict) and v.get("rc")]
    meta["detected_by_own_check"] = bool(meta["check_results"].get(meta["breaks_property"], {}).get("rc"))
json.dump(meta, open(f"{d}/meta.json", "w"), indent=1)
