#!/usr/bin/env python3
"""Regenerate MANIFEST.json from theorems.json (claimed properties) and properties.jsonl."""
import json, os
ROOT = os.path.dirname(os.path.dirname(os.path.abspath(__file__)))
reg = json.load(open(os.path.join(ROOT, "theorems.json")))
props = [json.loads(l) for l in open(os.path.join(ROOT, "properties.jsonl"))]
hooks = {
    "guard": "cargo feature `verif-hooks` of the snow crate (off by default)",
    "enable": "harness/Cargo.toml depends on /repo by path with features [verif-hooks, risky-raw-split] plus, under the harness feature `full` (default), [use-p256, use-xchacha20poly1305, ring-resolver]; `./check` rebuilds both binaries (target/ with `full`, target-min/ with snow's default features only) with cargo --offline on every run",
    "baseline_off_cmd": "cd /repo && cargo test --workspace --no-fail-fast --offline",
    "source_commits": ["fc080ff", "bd1655d"],
    "add_only": True,
}
checks = []
na = []
for p in props:
    pid = p["id"]
    e = reg.get(pid)
    if not e or not e.get("claimed", True):
        na.append({"property_id": pid, "reason": (e or {}).get("na_reason", "check under construction; not yet claimed")})
        continue
    checks.append({
        "property_id": pid,
        "quick_cmd": f"./check {pid} --tier quick",
        "thorough_cmd": f"./check {pid} --tier thorough",
        "evidence_file": f"/verif/evidence/{pid}.json",
        "replay_cmd_template": f"./check {pid} --replay {{path}}",
        "engine": "lean4-proof+correspondence",
        "level_claimed": {
            "category": "proof",
            "text": e.get("level_text", "Lean 4 theorems about a hand-written model of the code, for all inputs/states/histories the property quantifies over; the model is tied to /repo on every run by regenerated tables and a differential correspondence check; implementation oracles turn a broken proof or tie into a concrete replay."),
            "design_ref": e.get("design_ref", "DESIGN.md section 6"),
        },
        "level_note": "Assumed: " + e.get("laws", "-") + ". " + e.get("note", "") + " Trusted: Lean kernel, axioms propext/Classical.choice/Quot.sound at most (audited each run), table dumper, harness and driver; model=code by differential testing.",
        "technique": e.get("technique", "machine-checked proof in Lean 4 (kernel-checked theorems over a model) + model/implementation correspondence check"),
    })
m = {
    "version": 1,
    "setup_cmd": "./check --setup",
    "hooks": hooks,
    "engines": [{"name": "lean4-proof+correspondence", "path": "/verif/check", "serves_properties": [c["property_id"] for c in checks],
                 "kind_free_text": "Lean 4 theorems (lean/SnowVerif/Theorems) over a model of snow (lean/SnowVerif/Model), tables regenerated from the code, Rust harness + compiled Lean driver correspondence"}],
    "checks": checks,
    "not_applicable": na,
    "notes": "VERIF_SEED seeds all random choices; VERIF_TIER honoured when --tier is absent. known_findings.json lists recorded findings and fixed defects.",
}
json.dump(m, open(os.path.join(ROOT, "MANIFEST.json"), "w"), indent=1)
print(f"claimed {len(checks)}, not claimed {len(na)}")
