#!/usr/bin/env python3
"""benign.py <iso-name> <Bxx:V> ...: run ALL 20 quick checks against a harmless change (behaviour-preserving refactoring, or a
change observable only where no property constrains it) in an isolated copy (tools/iso.sh): none of them should raise an alarm.
Copies the patch and notes to /verif/benign/<Bxx-V>/ and writes result.json there (rc and summary line per property)."""
import json, os, shutil, subprocess, sys, time
name = sys.argv[1]
D = f"/root/scratch/iso-{name}"; V, R = D + "/verif", D + "/repo"
env = dict(os.environ, VERIF_REPO=R, CARGO_NET_OFFLINE="true")
PROPS = [f"C{i:02d}" for i in range(1, 21)]
for item in sys.argv[2:]:
    b, v = item.split(":")
    src = f"/tmp/mut/{b}/_seed/{v}"
    out = f"/verif/benign/{b}-{v}"
    os.makedirs(out, exist_ok=True)
    for f in ("patch.diff", "notes.md"):
        if os.path.exists(f"{src}/{f}"):
            shutil.copy(f"{src}/{f}", out)
    subprocess.run(["git", "-C", R, "checkout", "-q", "--", "."])
    a = subprocess.run(["git", "-C", R, "apply", f"{out}/patch.diff"], stdout=subprocess.PIPE, stderr=subprocess.STDOUT, text=True)
    if a.returncode != 0:
        json.dump({"error": "patch does not apply: " + a.stdout[-300:]}, open(f"{out}/result.json", "w")); print(item, "does not apply"); continue
    # the change must keep the baseline suite green (checked here, independently of the sub-agent's report)
    t = subprocess.run(["cargo", "test", "--workspace", "--no-fail-fast", "--offline"], cwd=R, env=env, stdout=subprocess.PIPE, stderr=subprocess.STDOUT, text=True)
    res = {"baseline_rc": t.returncode, "checks": {}}
    for p in PROPS:
        t0 = time.time()
        r = subprocess.run([V + "/check", p, "--tier", "quick"], cwd=V, env=env, stdout=subprocess.PIPE, stderr=subprocess.STDOUT, text=True)
        lines = [l for l in r.stdout.split("\n") if l.startswith("VIOLATION") or l.startswith(p + " quick")]
        res["checks"][p] = {"rc": r.returncode, "lines": lines, "wall_s": round(time.time() - t0)}
        rp = next((l.split("replay=")[1].split()[0] for l in lines if l.startswith("VIOLATION")), None)
        if rp and os.path.exists(rp):
            shutil.copy(rp, f"{out}/replay-{p}.json")
    subprocess.run(["git", "-C", R, "checkout", "-q", "--", "."])
    res["alarms"] = [p for p, x in res["checks"].items() if x["rc"] != 0]
    json.dump(res, open(f"{out}/result.json", "w"), indent=1)
    print(item, "baseline_rc", res["baseline_rc"], "alarms:", res["alarms"], flush=True)
