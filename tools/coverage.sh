#!/bin/bash
# coverage.sh [quick|thorough]: measure which lines of /repo/src the scenario generators of ALL properties reach.
# Builds the harness with `-C instrument-coverage` (nightly toolchain: llvm-profdata / llvm-cov ship with it) into a
# scratch target directory, runs `snowh run Cxx <tier> 1` for every property, merges the profiles and prints the
# per-file summary and every line of snow's source that was never executed. This measures the generators (the tie),
# it decides nothing; it is not registered in MANIFEST.json. Output: notes/coverage-<tier>.txt
set -eu
TIER=${1:-quick}
S=/root/scratch/cov; mkdir -p $S/prof $S/out
B=$(dirname $(rustup which --toolchain nightly rustc))/../lib/rustlib/x86_64-unknown-linux-gnu/bin
cd /verif/harness
LLVM_PROFILE_FILE=$S/build-%p.profraw RUSTFLAGS="-C instrument-coverage" CARGO_TARGET_DIR=$S/target CARGO_NET_OFFLINE=true cargo +nightly build --release --offline 2>&1 | tail -n 1
rm -f $S/prof/* $S/build-*.profraw   # (instrumented proc macros write a profile when rustc exits: keep them out of /repo)
for p in 01 02 03 04 05 06 07 08 09 10 11 12 13 14 15 16 17 18 19 20; do
  mkdir -p $S/out/C$p
  LLVM_PROFILE_FILE=$S/prof/C$p-%p.profraw $S/target/release/snowh run C$p $TIER 1 $S/out/C$p > $S/out/C$p.log 2>&1 &
done
wait
$B/llvm-profdata merge -sparse $S/prof/*.profraw -o $S/all.profdata
O=/verif/notes/coverage-$TIER.txt
{ echo "# source coverage of /repo/src under the scenario generators of all 20 properties, tier $TIER, seed 1 ($(git -C /repo rev-parse --short HEAD))"
  $B/llvm-cov report $S/target/release/snowh -instr-profile=$S/all.profdata --ignore-filename-regex='(registry|rustc|harness)' 2>/dev/null | awk 'NR==1{print "file lines missed cover"; next} /^---/{next} {print $1, $8, $9, $10}'
  echo; echo "# lines never executed"
  $B/llvm-cov show $S/target/release/snowh -instr-profile=$S/all.profdata --ignore-filename-regex='(registry|rustc|harness|verif_hooks)' 2>/dev/null | awk '/^\/repo/{f=$0} /^ +[0-9]+\| +0\|/{print f" "$0}'
} > $O
rm -rf $S/target $S/prof $S/out $S/all.profdata
echo "written $O"
