#!/usr/bin/env python3
"""mutants_report.py <results.json>... : summarise tools/mutate.py runs into notes/mutants.md."""
import json, sys, os
from collections import Counter
res = {}
for f in sys.argv[1:]:
    if os.path.exists(f):
        res.update(json.load(open(f)))
c = Counter(v["status"] for v in res.values())
caught_by = Counter(p for v in res.values() for p in v.get("caught_by", []))
out = ["# Automatic first-order mutants of /repo/src (tools/mutate.py)", "",
       f"Processed: {len(res)} mutants. " + ", ".join(f"{k}: {n}" for k, n in sorted(c.items())) + ".",
       "A mutant the baseline suite kills is not interesting here; `caught` = the baseline suite passes and a quick check reports it "
       "(first reporting check of the panel: " + ", ".join(f"{k} {n}" for k, n in caught_by.most_common()) + ").", "",
       "## Survivors (baseline passes, no quick check of the panel of 20 reports them), with my reading of each", ""]
WHY = [
    (lambda v: v["file"] == "builder.rs" and "MAX_PSKS" in v["old"], "REAL GAP (closed): `Builder::psk(10, ..)` panics; the setter chains used position 10 exactly only with probability 1/246 -- boundary positions are now deliberate"),
    (lambda v: v["file"] == "transportstate.rs" and "MAXMSGLEN - 1" in v["new"], "REAL GAP (closed): a stateful transport write refusing exactly the largest legal payload (65519 bytes); only the stateless stream wrote maximum-size payloads -- now both do"),
    (lambda v: v["file"] == "cipherstate.rs" and v["line"] == 155, "REAL GAP (closed): stateless read of a genuine message into an undersized payload buffer was never generated -- now it is (refused, no panic)"),
    (lambda v: v["file"] == "resolvers/default.rs" and "::default();" in v["old"], "REAL GAP (closed, also seed C18-L): `reset()` of a default hash made a no-op; a hash object with pending input was never reset or reused -- the `hashseq` operation does that now"),
    (lambda v: v["file"] == "resolvers/ring.rs" and "try_fill_bytes(dest).unwrap()" in v["old"], "REAL GAP (closed): ring's `fill_bytes` made a no-op (all-zero randomness): sessions use scripted randomness, so the ring RNG was never drawn from -- now 120 draws and 24 generated keys per resolver RNG must be distinct, and many unscripted sessions run on fb(ring,default)"),
    (lambda v: v["file"] == "resolvers/ring.rs" and v["line"] == 214, "which of ring's two decrypt paths serves a buffer of exactly the ciphertext's size: same result, same accepted set; only bytes beyond the plaintext / after a failure differ, which no property constrains: equivalent for the properties"),
    (lambda v: v["file"] == "params/patterns.rs" and v["line"] > 540, "`apply_hfs_modifier` (`hfs`-only), compiled out: equivalent"),
    (lambda v: v["file"] == "resolvers/default.rs" and v["line"] > 590, "Kyber KEM wrapper (`hfs`), compiled out: equivalent"),
    (lambda v: v["file"] == "handshakestate.rs" and 415 < v["line"] < 460, "`hfs`-only token arms (E1 / Ekem1), compiled out: equivalent"),
    (lambda v: v["file"] == "handshakestate.rs" and v["line"] in (69, 70, 71), "consistency guard of `HandshakeState::new` (`s`/`e`/`rs`/`re` lengths): `e` and `re` are always off at construction and the arrays are `MAXDHLEN` long, so only a resolver that answers two `resolve_dh` requests differently reaches it: equivalent for every resolver expression of the harness"),
    (lambda v: "kem" in v["old"] or "kem" in v["new"], "`hfs`-only code, compiled out: equivalent"),
    (lambda v: v["file"] == "handshakestate.rs" and "dh.is_on() || key.is_on()" in v["new"], "`MissingKeyMaterial` guard in `dh()`: for table patterns both keys are always present when a DH token is reached (C12 `no_missing_key_later`): unreachable"),
    (lambda v: "self.e.disable()" in v["old"] or v["old"].strip() in ("self.re = re;", "self.rs = rs;"), "restore of a field after a failed call that no later call reads before it is overwritten (the retry regenerates / re-reads it): unobservable"),
    (lambda v: v["file"] == "symmetricstate.rs" and v["line"] == 27, "default value overwritten by `initialize()` before first use: equivalent"),
]
for k, v in sorted(res.items()):
    if v["status"] != "SURVIVED":
        continue
    why = next((w for f, w in WHY if f(v)), "TO INSPECT")
    out.append(f"* `{v['file']}:{v['line']}` `{v['old'][:90]}` -> `{v['new'][:90]}` -- {why}")
open(os.path.join(os.path.dirname(os.path.dirname(os.path.abspath(__file__))), "notes", "mutants.md"), "w").write("\n".join(out) + "\n")
print("\n".join(l for l in out if "TO INSPECT" in l) or "no uninspected survivors", f"({len(res)} processed)")
