#!/bin/bash
# refresh_evidence.sh: run every quick check on the unchanged tree (rewrites evidence/*.json); prints one line per property.
cd /verif || exit 2
git -C /repo status --short | grep -q . && { echo "/repo not clean"; exit 2; }
rc=0
for i in 01 02 03 04 05 06 07 08 09 10 11 12 13 14 15 16 17 18 19 20; do
  s=$(date +%s); out=$(./check C$i --tier quick 2>&1); r=$?
  echo "C$i rc=$r $(( $(date +%s)-s ))s $(echo "$out" | grep -E 'VIOLATION|quick:' | cut -c1-200 | head -2)"
  [ $r -ne 0 ] && rc=1
done
exit $rc
