#!/usr/bin/env python3
"""regress.py <iso-name> <out.json> [seed-dir-names...]: run every seeded change (default: all of seeded/*) against the
checks of an isolated copy made by tools/iso.sh: apply the patch to the copy's repo, run the quick check of the property
the change was written against, undo. Records rc per seed; a seed whose own check exits 0 is a miss."""
import json, os, subprocess, sys, time
name, outp = sys.argv[1], sys.argv[2]
D = f"/root/scratch/iso-{name}"
V, R = D + "/verif", D + "/repo"
seeds = sys.argv[3:] or sorted(d for d in os.listdir(V + "/seeded") if os.path.exists(f"{V}/seeded/{d}/patch.diff"))
env = dict(os.environ, VERIF_REPO=R, CARGO_NET_OFFLINE="true", VERIF_NO_ESCALATE="1")
res = {}
for s in seeds:
    prop = s.split("-")[0]
    subprocess.run(["git", "-C", R, "checkout", "-q", "--", "."])
    a = subprocess.run(["git", "-C", R, "apply", f"{V}/seeded/{s}/patch.diff"], stdout=subprocess.PIPE, stderr=subprocess.STDOUT, text=True)
    if a.returncode != 0:
        res[s] = {"rc": None, "error": "patch does not apply: " + a.stdout[-300:]}
        continue
    t0 = time.time()
    r = subprocess.run([V + "/check", prop, "--tier", "quick"], cwd=V, env=env, stdout=subprocess.PIPE, stderr=subprocess.STDOUT, text=True)
    lines = [l for l in r.stdout.split("\n") if l.startswith("VIOLATION") or l.startswith(prop + " quick")]
    res[s] = {"rc": r.returncode, "lines": lines, "wall_s": round(time.time() - t0)}
    subprocess.run(["git", "-C", R, "checkout", "-q", "--", "."])
    print(s, r.returncode, lines[-1][:160] if lines else "", flush=True)
    json.dump(res, open(outp, "w"), indent=1)
missed = [s for s, v in res.items() if v["rc"] == 0]
print("MISSED:", missed)
