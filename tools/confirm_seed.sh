#!/bin/bash
# confirm_seed.sh <worktree> <seed-subdir>: confirm a seeded change in its scratch worktree:
#  demo passes without the change; with the change the baseline suite passes and the demo fails.
set -u
WT=$1; SD=$2
cd "$WT" || exit 2
git checkout -q -- src
cp "$SD/demo.rs" tests/zz_seed_demo.rs
export CARGO_NET_OFFLINE=true
FEAT=""
grep -q "P256\|use-p256\|XChaCha" "$SD/demo.rs" && FEAT="--features use-p256,use-xchacha20poly1305,ring-resolver,risky-raw-split"
grep -q "RingResolver\|ring" "$SD/demo.rs" && FEAT="--features use-p256,use-xchacha20poly1305,ring-resolver,risky-raw-split"
grep -q "features: default" "$SD/demo.rs" && FEAT=""   # a defect of the default-features build only
echo "== demo without change ($FEAT)"
cargo test --offline $FEAT --test zz_seed_demo > "$SD/confirm_demo_clean.log" 2>&1; A=$?
git apply "$SD/patch.diff" || { echo "patch does not apply"; rm -f tests/zz_seed_demo.rs; exit 3; }
echo "== baseline with change"
mv tests/zz_seed_demo.rs /tmp/zz_seed_demo.$$.rs
cargo test --workspace --no-fail-fast --offline > "$SD/confirm_baseline_mut.log" 2>&1; B=$?
cargo build --offline --features use-p256,use-xchacha20poly1305,ring-resolver,risky-raw-split > "$SD/confirm_build_feat.log" 2>&1; B2=$?
mv /tmp/zz_seed_demo.$$.rs tests/zz_seed_demo.rs
echo "== demo with change"
cargo test --offline $FEAT --test zz_seed_demo > "$SD/confirm_demo_mut.log" 2>&1; C=$?
git checkout -q -- src; rm -f tests/zz_seed_demo.rs
echo "RESULT demo_clean_rc=$A baseline_mut_rc=$B build_feat_rc=$B2 demo_mut_rc=$C"
if [ $A -eq 0 ] && [ $B -eq 0 ] && [ $B2 -eq 0 ] && [ $C -ne 0 ]; then echo CONFIRMED; else echo NOT-CONFIRMED; fi
